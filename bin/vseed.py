#!/usr/bin/env python3
"""vseed.py <seeded/id> [Cxx ...]  — apply a seeded change to /repo, run the quick tier of the given checks
(default: the property the change targets), record which checks report a VIOLATION, and undo the change.
Never leaves /repo modified (git checkout -- . in a finally block)."""
import json, os, subprocess, sys, time

VERIF = os.path.dirname(os.path.dirname(os.path.abspath(__file__)))
REPO = "/repo"


def main():
    d = os.path.abspath(sys.argv[1])
    meta_p = os.path.join(d, "meta.json")
    meta = json.load(open(meta_p)) if os.path.exists(meta_p) else {}
    props = sys.argv[2:] or [meta.get("property")]
    tier = os.environ.get("VSEED_TIER", "quick")
    st = subprocess.run(["git", "-C", REPO, "status", "--porcelain", "--untracked-files=no"], stdout=subprocess.PIPE).stdout.decode().strip()
    if st:
        print("refusing: /repo has uncommitted changes:\n" + st)
        sys.exit(2)
    patch = os.path.join(d, "patch.diff")
    r = subprocess.run(["git", "-C", REPO, "apply", patch])
    if r.returncode != 0:
        print("patch does not apply")
        sys.exit(2)
    results = {}
    try:
        for p in props:
            t0 = time.time()
            env = dict(os.environ)
            r = subprocess.run([sys.executable, os.path.join(VERIF, "bin", "vcheck.py"), p, tier], stdout=subprocess.PIPE,
                               stderr=subprocess.PIPE, cwd=VERIF, env=env)
            out = r.stdout.decode(errors="replace")
            viol = [l for l in out.splitlines() if l.startswith("VIOLATION")]
            err = r.stderr.decode(errors="replace")
            first = ""
            for l in err.splitlines():
                if "confirmed failure" in l or "regression replay failed" in l:
                    first = l[:400]
                    break
            results[p] = dict(rc=r.returncode, violations=len(viol), wall_s=round(time.time() - t0, 1), first=first)
            print("%s: rc=%d violations=%d (%.0fs) %s" % (p, r.returncode, len(viol), time.time() - t0, first[:200]))
    finally:
        subprocess.run(["git", "-C", REPO, "checkout", "--", "."])
        # evidence and found replays written while the tree was modified do not describe the unchanged tree
        subprocess.run(["git", "-C", VERIF, "checkout", "--", "evidence"], stderr=subprocess.DEVNULL)
    meta.setdefault("runs", []).append(dict(tier=tier, results=results, at=time.strftime("%Y-%m-%d %H:%M")))
    meta["detected_by"] = sorted(set(meta.get("detected_by", []) + [p for p, v in results.items() if v["violations"] > 0]))
    meta["missed_by"] = sorted(set([p for p, v in results.items() if v["violations"] == 0 and v["rc"] == 0]) - set(meta["detected_by"]))
    json.dump(meta, open(meta_p, "w"), indent=1)


if __name__ == "__main__":
    main()
