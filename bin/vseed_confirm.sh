#!/bin/bash
# vseed_confirm.sh <seeded/id> <scratch worktree>   — confirm a seeded change independently:
# clean tree: demo passes; patched tree: library builds, `make check` passes 15/15, demo fails.
# Writes confirm.log into the seeded directory.  The scratch worktree must be a built worktree of /repo (outside /repo, /verif).
set -u
S=$(readlink -f "$1"); W="$2"; L="$S/confirm.log"
# extra linker flags a demonstration needs (e.g. -Wl,--wrap=...) can be given in <seeded/id>/ldflags
XLD=""; [ -f "$S/ldflags" ] && XLD=$(cat "$S/ldflags")
cd "$W" || exit 2
{
echo "== $(date) confirm $S in $W (HEAD $(git rev-parse --short HEAD))"
git checkout -- . && git apply "$S/patch.diff" || { echo "RESULT patch-does-not-apply"; exit 1; }
make -j8 >/dev/null 2>&1 || { echo "RESULT patched-tree-does-not-build"; git checkout -- .; exit 1; }
CC_LINE="gcc -O1 -I$W $S/demo.c $W/.libs/libm4ri.a -lpng -lm -fopenmp $XLD -o /tmp/demo-$$"
$CC_LINE 2>/dev/null || gcc -O1 -I$W $S/demo.c $W/.libs/libm4ri.a -lpng -lm $XLD -o /tmp/demo-$$ || { echo "RESULT demo-does-not-compile"; git checkout -- .; exit 1; }
timeout 600 /tmp/demo-$$ >/tmp/demo-$$.out 2>&1; RC_PATCHED=$?
echo "demo on patched tree: exit $RC_PATCHED"; tail -3 /tmp/demo-$$.out
make -j8 check >/tmp/demo-$$.check 2>&1; grep -E "^# (PASS|FAIL|ERROR):" /tmp/demo-$$.check | tr '\n' ' '; echo
NPASS=$(grep -E "^# PASS:" /tmp/demo-$$.check | awk '{print $3}'); NFAIL=$(grep -E "^# FAIL:" /tmp/demo-$$.check | awk '{print $3}')
git checkout -- . && make -j8 >/dev/null 2>&1
gcc -O1 -I$W $S/demo.c $W/.libs/libm4ri.a -lpng -lm -fopenmp $XLD -o /tmp/demo-$$ 2>/dev/null || gcc -O1 -I$W $S/demo.c $W/.libs/libm4ri.a -lpng -lm $XLD -o /tmp/demo-$$
timeout 600 /tmp/demo-$$ >/tmp/demo-$$.out 2>&1; RC_CLEAN=$?
echo "demo on clean tree: exit $RC_CLEAN"
rm -f /tmp/demo-$$ /tmp/demo-$$.out /tmp/demo-$$.check
if [ "$RC_CLEAN" = 0 ] && [ "$RC_PATCHED" != 0 ] && [ "${NPASS:-0}" = 15 ] && [ "${NFAIL:-1}" = 0 ]; then echo "RESULT confirmed"; else echo "RESULT not-confirmed (clean=$RC_CLEAN patched=$RC_PATCHED pass=${NPASS:-?} fail=${NFAIL:-?})"; fi
} >> "$L" 2>&1
tail -1 "$L"
