#!/usr/bin/env python3
"""Content-addressed builds of /repo/m4ri/*.c + shim + harness per configuration.

Every object is keyed by sha256(preprocessed translation unit + flags), so an edit to any
source or header under /repo forces a recompile and nothing stale can be linked, while an
unchanged tree reuses objects.  Used as a library by vcheck.py and as the setup command
(`python3 bin/vbuild.py --setup`), which precompiles the /repo-independent harness objects.
"""
import hashlib, os, subprocess, sys, shutil, re, json, tempfile, time
from concurrent.futures import ThreadPoolExecutor

VERIF = os.path.dirname(os.path.dirname(os.path.abspath(__file__)))
REPO = os.environ.get("VERIF_REPO", "/repo")
BUILD = os.path.join(VERIF, "build")
OBJ = os.path.join(BUILD, "obj")
BIN = os.path.join(BUILD, "bin")
CFG = os.path.join(BUILD, "cfg")
CC = "clang"
CXX = "clang++"
JOBS = int(os.environ.get("VERIF_JOBS", "16"))

M4RI_SOURCES = ["brilliantrussian.c", "debug_dump.c", "djb.c", "echelonform.c", "graycode.c", "io.c",
                "misc.c", "mmc.c", "mp.c", "mzd.c", "mzp.c", "ple.c", "ple_russian.c", "solve.c",
                "strassen.c", "triangular.c", "triangular_russian.c"]

SAN = ["-fsanitize=address,undefined", "-fsanitize-recover=address,undefined", "-fno-omit-frame-pointer"]
STRICT = ["-fsanitize=address,undefined", "-fno-sanitize-recover=all", "-fno-omit-frame-pointer"]
TSAN = ["-fsanitize=thread", "-fno-omit-frame-pointer"]

# name -> configuration.  l1:l2:l3 "small" is the smallest triple C12 admits.
SMALL = (4096, 32768, 65536)
MID = (32768, 262144, 4194304)
HOST = (32768, 1310720, 56623104)


def mkcfg(name, caches=SMALL, sse2=1, openmp=0, mmc=1, mzdcache=1, san=SAN, opt="-O1", wrap=False, extra=(), alloc="mm"):
    # alloc: which branch of the allocation primitives in misc.h is compiled ("mm": _mm_malloc, "posix": posix_memalign,
    # "malloc": plain malloc/calloc) - configure picks the first that the platform offers
    return dict(name=name, caches=caches, sse2=sse2, openmp=openmp, mmc=mmc, mzdcache=mzdcache, san=list(san),
                opt=opt, wrap=wrap, extra=list(extra), alloc=alloc)


CONFIGS = {}
for c in [
    mkcfg("small"),
    mkcfg("small-nosse", sse2=0),
    mkcfg("mid", caches=MID),
    mkcfg("host", caches=HOST),
    mkcfg("host-nosse", caches=HOST, sse2=0),
    mkcfg("small-ts", mmc=0, mzdcache=0),
    mkcfg("mid-ts-nosse", caches=MID, mmc=0, mzdcache=0, sse2=0),
    mkcfg("small-strict", san=STRICT),
    mkcfg("small-nosse-strict", sse2=0, san=STRICT),
    mkcfg("small-ts-strict", mmc=0, mzdcache=0, san=STRICT),
    mkcfg("small-wrap", wrap=True),
    mkcfg("small-nosse-wrap", wrap=True, sse2=0),
    mkcfg("small-wrap-strict", wrap=True, san=STRICT),
    mkcfg("small-nosse-wrap-strict", wrap=True, sse2=0, san=STRICT),
    mkcfg("small-ts-wrap-strict", wrap=True, mmc=0, mzdcache=0, san=STRICT),
    mkcfg("small-posix-wrap-strict", wrap=True, san=STRICT, alloc="posix"),
    mkcfg("small-omp", openmp=1, mzdcache=0),
    mkcfg("mid-omp", caches=MID, openmp=1, mzdcache=0),
    mkcfg("small-omp-nosse", openmp=1, mzdcache=0, sse2=0),
    mkcfg("small-omp-tsan", openmp=1, mzdcache=0, san=TSAN),
    mkcfg("small-ts-tsan", mmc=0, mzdcache=0, san=TSAN),
    mkcfg("small-mmc-tsan", mmc=1, mzdcache=1, san=TSAN),
    mkcfg("small-cov", san=[], extra=["-fprofile-instr-generate", "-fcoverage-mapping"]),
    mkcfg("small-nosse-cov", sse2=0, san=[], extra=["-fprofile-instr-generate", "-fcoverage-mapping"]),
    mkcfg("small-fuzz", san=["-fsanitize=fuzzer-no-link,address,undefined", "-fno-sanitize-recover=all",
                             "-fno-omit-frame-pointer"]),
]:
    CONFIGS[c["name"]] = c


def log(*a):
    print("[vbuild]", *a, file=sys.stderr, flush=True)


def sh(cmd, **kw):
    return subprocess.run(cmd, stdout=subprocess.PIPE, stderr=subprocess.PIPE, **kw)


def config_header(cfg, real_header=None):
    """Generate m4ri/m4ri_config.h for cfg from /repo/m4ri/m4ri_config.h.in; returns include dir."""
    d = os.path.join(CFG, cfg["name"])
    os.makedirs(os.path.join(d, "m4ri"), exist_ok=True)
    if real_header is not None:
        text = real_header
    else:
        text = open(os.path.join(REPO, "m4ri", "m4ri_config.h.in")).read()
        l1, l2, l3 = cfg["caches"]
        al = cfg.get("alloc", "mm")
        sub = {"M4RI_HAVE_MM_MALLOC": "1" if al == "mm" else "0", "M4RI_HAVE_POSIX_MEMALIGN": "0" if al == "malloc" else "1",
               "M4RI_HAVE_SSE2": str(cfg["sse2"]),
               "M4RI_HAVE_OPENMP": str(cfg["openmp"]), "M4RI_CPU_L1_CACHE": str(l1), "M4RI_CPU_L2_CACHE": str(l2),
               "M4RI_CPU_L3_CACHE": str(l3), "M4RI_DEBUG_DUMP": "0", "M4RI_DEBUG_MZD": "0", "M4RI_HAVE_LIBPNG": "1",
               "CC": "clang", "SIMD_FLAGS": "", "OPENMP_CFLAGS": "", "CFLAGS": "",
               "M4RI_ENABLE_MZD_CACHE": str(cfg["mzdcache"]), "M4RI_ENABLE_MMC": str(cfg["mmc"])}
        text = re.sub(r"@([A-Za-z0-9_]+)@", lambda m: sub.get(m.group(1), "0"), text)
    p = os.path.join(d, "m4ri", "m4ri_config.h")
    old = open(p).read() if os.path.exists(p) else None
    if old != text:
        with open(p, "w") as f:
            f.write(text)
    return d


def cflags(cfg):
    d = os.path.join(CFG, cfg["name"])
    f = ["-std=gnu11", "-g", cfg["opt"], "-DNDEBUG", "-include", os.path.join(d, "m4ri", "m4ri_config.h"),
         "-I" + d, "-I" + os.path.join(d, "m4ri"), "-I" + REPO, "-I" + os.path.join(REPO, "m4ri"),
         "-I" + os.path.join(VERIF, "shim"), "-w"]
    if cfg["sse2"]:
        f += ["-msse2"]
    else:
        f += []
    if cfg["openmp"]:
        f += ["-fopenmp"]
    f += cfg["san"] + cfg["extra"]
    return f


def compile_one(cc, src, flags, tag):
    """Compile src with flags into a content-addressed object; returns (path, compiled?)."""
    pre = sh([cc] + flags + ["-E", src])
    if pre.returncode != 0:
        raise RuntimeError("preprocess failed: %s\n%s" % (src, pre.stderr.decode()[-4000:]))
    # strip line markers so that moving directories does not matter but content does
    h = hashlib.sha256()
    h.update(" ".join([cc] + [x for x in flags if not x.startswith("-I") and x != "-include"]).encode())
    h.update(pre.stdout)
    key = h.hexdigest()[:32]
    out = os.path.join(OBJ, "%s-%s.o" % (tag, key))
    if os.path.exists(out):
        return out, False
    tmp = out + ".tmp%d" % os.getpid()
    r = sh([cc] + flags + ["-c", src, "-o", tmp])
    if r.returncode != 0:
        raise RuntimeError("compile failed: %s\n%s" % (src, r.stderr.decode()[-6000:]))
    os.replace(tmp, out)
    return out, True


HARNESS_FLAGS = ["-std=gnu++17", "-g", "-O2", "-I" + os.path.join(VERIF, "shim"), "-I" + os.path.join(VERIF, "src"),
                 "-fno-omit-frame-pointer", "-w"]


def harness_sources():
    src = os.path.join(VERIF, "src")
    return sorted(os.path.join(src, f) for f in os.listdir(src) if f.endswith(".cpp") and not f.startswith("fz_"))


def build_harness(pool):
    os.makedirs(OBJ, exist_ok=True)
    futs = [pool.submit(compile_one, CXX, s, HARNESS_FLAGS, "h-" + os.path.basename(s)[:-4]) for s in harness_sources()]
    objs = []
    n = 0
    for f in futs:
        o, c = f.result()
        objs.append(o)
        n += c
    if n:
        log("compiled %d harness objects" % n)
    return objs


def build_lib(cfgname, pool, real_header=None):
    """Compile /repo/m4ri/*.c + shim for a configuration; returns list of objects."""
    cfg = CONFIGS[cfgname]
    os.makedirs(OBJ, exist_ok=True)
    config_header(cfg, real_header)
    flags = cflags(cfg)
    srcs = [os.path.join(REPO, "m4ri", s) for s in M4RI_SOURCES]
    srcs += [os.path.join(VERIF, "shim", "shim.c")]
    if cfg["wrap"]:
        flags = flags + ["-DVF_WRAPALLOC"]
    futs = [pool.submit(compile_one, CC, s, flags, cfgname + "-" + os.path.basename(s)[:-2]) for s in srcs]
    objs = []
    n = 0
    for f in futs:
        o, c = f.result()
        objs.append(o)
        n += c
    if cfg["wrap"]:
        # the allocator wrapper itself is not wrapped and not sanitized differently
        o, c = compile_one(CC, os.path.join(VERIF, "shim", "wrapalloc.c"),
                           ["-std=gnu11", "-g", "-O1", "-w"] + cfg["san"], cfgname + "-wrapalloc")
        objs.append(o)
        n += c
    if n:
        log("%s: compiled %d objects" % (cfgname, n))
    return objs


def link(cfgname, objs, hobjs, outname=None, extra_libs=()):
    cfg = CONFIGS[cfgname]
    os.makedirs(BIN, exist_ok=True)
    h = hashlib.sha256(("\n".join(objs + hobjs) + cfgname).encode()).hexdigest()[:16]
    out = os.path.join(BIN, "%s-%s-%s" % (outname or "vf", cfgname, h))
    if os.path.exists(out):
        return out
    cmd = [CXX, "-o", out + ".tmp%d" % os.getpid()] + hobjs + objs + cfg["san"] + [x for x in cfg["extra"] if x.startswith("-fprofile") or x.startswith("-fcoverage")]
    cmd = [c for c in cmd if not c.startswith("-fsanitize-recover") and not c.startswith("-fno-sanitize-recover")]
    cmd = [c.replace("fuzzer-no-link", "fuzzer") for c in cmd]
    if cfg["openmp"]:
        cmd += ["-fopenmp"]
    if cfg["wrap"]:
        cmd += ["-Wl,--wrap=malloc,--wrap=calloc,--wrap=realloc,--wrap=posix_memalign,--wrap=free"]
    cmd += ["-lrapidcheck", "-lpng", "-lz", "-lm", "-lpthread"] + list(extra_libs)
    r = sh(cmd)
    if r.returncode != 0:
        raise RuntimeError("link failed (%s):\n%s" % (cfgname, r.stderr.decode()[-6000:]))
    os.replace(out + ".tmp%d" % os.getpid(), out)
    # disk hygiene: remove binaries of exactly this configuration that are old enough not to be in use by a concurrently
    # running check (names are <tool>-<config>-<16 hex>; "small" must not match "small-nosse")
    pat = re.compile(r"^%s-%s-[0-9a-f]{16}$" % (re.escape(outname or "vf"), re.escape(cfgname)))
    now = time.time()
    for f in os.listdir(BIN):
        fp = os.path.join(BIN, f)
        if pat.match(f) and fp != out:
            try:
                if now - os.path.getmtime(fp) > 6 * 3600:
                    os.remove(fp)
            except OSError:
                pass
    return out


def build(cfgnames, real_headers=None):
    """Build vf binaries for the given configurations (in parallel); returns {cfg: path}."""
    real_headers = real_headers or {}
    cfgnames = list(dict.fromkeys(cfgnames))
    with ThreadPoolExecutor(JOBS) as pool, ThreadPoolExecutor(max(1, len(cfgnames))) as outer:
        hobjs = build_harness(pool)
        futs = {c: outer.submit(build_lib, c, pool, real_headers.get(c)) for c in cfgnames}
        res = {}
        for c in cfgnames:
            res[c] = link(c, futs[c].result(), hobjs)
    return res


def cfg_from_header(name, text, san=SAN, wrap=False):
    """Register a configuration whose m4ri_config.h was produced by the repository's own configure."""
    def val(k, d):
        m = re.search(r"#define\s+%s\s+(\S+)" % k, text)
        return int(m.group(1)) if m and m.group(1).isdigit() else d
    CONFIGS[name] = mkcfg(name, caches=(val("__M4RI_CPU_L1_CACHE", 0), val("__M4RI_CPU_L2_CACHE", 0), val("__M4RI_CPU_L3_CACHE", 0)),
                          sse2=val("__M4RI_HAVE_SSE2", 1), openmp=val("__M4RI_HAVE_OPENMP", 0), mmc=val("__M4RI_ENABLE_MMC", 1),
                          mzdcache=val("__M4RI_ENABLE_MZD_CACHE", 1), san=san, wrap=wrap)
    return CONFIGS[name]


def fz_harness_futures(pool, name):
    hflags = HARNESS_FLAGS + ["-fsanitize=address,undefined", "-fno-sanitize-recover=all"]
    if name == "fz_io":
        hs = [os.path.join(VERIF, "src", name + ".cpp"), os.path.join(VERIF, "src", "harness.cpp")]
    else:  # whole catalogue (everything but the rapidcheck driver)
        hs = [os.path.join(VERIF, "src", name + ".cpp")] + [x for x in harness_sources() if not x.endswith("vf_main.cpp")]
    return [pool.submit(compile_one, CXX, x, hflags, "fz-" + os.path.basename(x)[:-4]) for x in hs]


def build_fuzzer(name="fz_io", cfgname="small-fuzz"):
    """libFuzzer binary: /repo/m4ri/*.c + shim with fuzzer-no-link instrumentation, target src/<name>.cpp"""
    cfg = CONFIGS[cfgname]
    with ThreadPoolExecutor(JOBS) as pool:
        objs = build_lib(cfgname, pool)
        futs = fz_harness_futures(pool, name)
        hobjs = [f.result()[0] for f in futs]
    os.makedirs(BIN, exist_ok=True)
    h = hashlib.sha256(("\n".join(objs + hobjs)).encode()).hexdigest()[:16]
    out = os.path.join(BIN, "%s-%s-%s" % (name, cfgname, h))
    if not os.path.exists(out):
        cmd = [CXX, "-o", out, "-fsanitize=fuzzer,address,undefined"] + hobjs + objs + (["-lrapidcheck"] if name != "fz_io" else []) + ["-lpng", "-lz", "-lm"]
        r = sh(cmd)
        if r.returncode != 0:
            raise RuntimeError("fuzzer link failed:\n" + r.stderr.decode()[-4000:])
        for f in os.listdir(BIN):
            fp = os.path.join(BIN, f)
            if re.match(r"^%s-%s-[0-9a-f]{16}$" % (re.escape(name), re.escape(cfgname)), f) and fp != out and time.time() - os.path.getmtime(fp) > 6 * 3600:
                os.remove(fp)
    return out


def gc_objects(max_bytes=6 << 30):
    """Drop least recently used objects when the cache grows too large."""
    if not os.path.isdir(OBJ):
        return
    files = [(os.path.getatime(os.path.join(OBJ, f)), os.path.getsize(os.path.join(OBJ, f)), os.path.join(OBJ, f))
             for f in os.listdir(OBJ)]
    total = sum(s for _, s, _ in files)
    if total <= max_bytes:
        return
    for _, s, p in sorted(files):
        try:
            os.remove(p)
        except OSError:
            pass
        total -= s
        if total <= max_bytes * 0.7:
            break


def real_config_headers(variants):
    """Run the repository's own configure (from the current configure.ac) for each variant.

    variants: {cfgname: [configure args]}.  Returns {cfgname: header text}.  The scratch tree lives under
    a temporary directory outside /repo and /verif and is removed afterwards."""
    tmp = tempfile.mkdtemp(prefix="m4ri-cfg.")
    try:
        src = os.path.join(tmp, "src")
        os.makedirs(src)
        lf = subprocess.run(["git", "-C", REPO, "ls-files"], stdout=subprocess.PIPE, stderr=subprocess.PIPE)
        if lf.returncode == 0 and lf.stdout.strip():
            files = lf.stdout.decode().split("\n")
        else:  # not a git checkout: take the source files of the tree as they are
            files = []
            for root, dirs, fs in os.walk(REPO):
                dirs[:] = [d for d in dirs if d not in (".git", ".libs", ".deps", "autom4te.cache", "_build")]
                for f in fs:
                    if f.endswith((".o", ".lo", ".la", ".a", ".so", ".log", ".trs")) or f in ("config.status", "libtool", "config.h", "m4ri_config.h", "stamp-h1", "Makefile"):
                        continue
                    files.append(os.path.relpath(os.path.join(root, f), REPO))
        for f in files:
            if not f:
                continue
            s = os.path.join(REPO, f)
            if not os.path.isfile(s):
                continue
            d = os.path.join(src, f)
            os.makedirs(os.path.dirname(d), exist_ok=True)
            shutil.copy2(s, d)
        r = sh(["autoreconf", "-i"], cwd=src)
        if r.returncode != 0:
            raise RuntimeError("autoreconf failed:\n" + r.stderr.decode()[-3000:])

        def one(item):
            name, args = item
            b = os.path.join(tmp, "b-" + name)
            os.makedirs(b)
            r = sh(["../src/configure"] + args, cwd=b)
            if r.returncode != 0:
                raise RuntimeError("configure %s failed:\n%s" % (args, (r.stdout + r.stderr).decode()[-3000:]))
            return name, open(os.path.join(b, "m4ri", "m4ri_config.h")).read()

        with ThreadPoolExecutor(JOBS) as pool:
            return dict(pool.map(one, variants.items()))
    finally:
        shutil.rmtree(tmp, ignore_errors=True)


if __name__ == "__main__":
    if "--setup" in sys.argv:
        with ThreadPoolExecutor(JOBS) as pool:
            build_harness(pool)
            for f in fz_harness_futures(pool, "fz_ops") + fz_harness_futures(pool, "fz_io"):
                f.result()
        log("setup done")
    else:
        names = [a for a in sys.argv[1:] if not a.startswith("-")] or ["small"]
        for k, v in build(names).items():
            print(k, v)
