#!/usr/bin/env python3
"""Regenerates MANIFEST.json from the table below (run after adding a check)."""
import json, os, subprocess

VERIF = os.path.dirname(os.path.dirname(os.path.abspath(__file__)))
FUZZ_PROPS = ("C01", "C02", "C03", "C04", "C05", "C06", "C07", "C08", "C09", "C11", "C13", "C14", "C17")

# id: (implemented, level, technique, level text, note, design ref)
T = {
 "C01": (1, "exploration", "property-based testing (rapidcheck): every multiplication route vs. a schoolbook reference model",
         "generated (route, shape, k/cutoff, pattern, destination) cases compared bit for bit with the model product; factors and padding checked; size mixtures aimed at every regime switch of the small cache configuration; both factors as overlapping views of one region; thorough tier also products with all dimensions above 4096",
         "trusts the reference model (self-checked in C19) and the shim's raw-layout accessors; samples the input space"),
 "C02": (1, "exploration", "property-based testing (rapidcheck): echelon routines vs. model Gauss-Jordan (rank, unique RREF, REF validity + row space)",
         "rank-structured generated inputs (rank, pivot set, dependent rows are generated, not hoped for) through all six entry points; REF checked by validity, RREF by equality with the model",
         "trusts the reference model; samples"),
 "C03": (1, "exploration", "property-based testing (rapidcheck): PLE/PLUQ reconstruction, rank profile and storage layout in a reference model",
         "eight routines incl. the block-recursive regime reached through the small cache configuration; factors are validated by reconstruction, never compared with another routine",
         "trusts the reference model and the PLE storage reading recorded in DESIGN 1.3; samples"),
 "C04": (1, "exploration", "property-based testing (rapidcheck): TRSM results multiplied back in a reference model",
         "eight variants, all three size regimes, junk in the unused triangle; unique solution checked by model product",
         "trusts the reference model; samples"),
 "C05": (1, "exploration", "property-based testing (rapidcheck): inverses checked by model products on constructed invertible inputs",
         "A = Pi*L*U construction is complete for invertible matrices; both products with the result must be the identity; supplied junk destinations for both inversion routines; every table parameter the triangular inversion admits (0..16)",
         "trusts the reference model; samples"),
 "C06": (1, "exploration", "property-based testing (rapidcheck): solvability verdict vs. model rank test, solutions multiplied back",
         "right-hand sides generated per kind (consistent, one flipped bit, padding-row-only inconsistency, random, zero) for all three shape orders",
         "only inconsistency_check=1 is judged (output documented undefined otherwise); trusts the reference model; samples"),
 "C07": (1, "exploration", "property-based testing (rapidcheck): kernel basis validity (A*K=0, rank K = n-r, NULL iff r=n) in a reference model",
         "validity predicate rather than one expected basis", "trusts the reference model; samples"),
 "C08": (1, "exploration", "property-based testing (rapidcheck) with a reference-model oracle; exhaustive single-entry basis enumeration for small transposes",
         "op x shape class x pattern x aliasing x destination; complete bases for every transpose shape <= 32x32 (quick) / < 64x64 (thorough)",
         "trusts the reference model and the raw-layout reader of the shim; exhaustive only for the enumerated bases"),
 "C09": (1, "exploration", "property-based testing (rapidcheck): differential (window vs. standalone copy) + model + bit-exact parent snapshots",
         "every catalogue operation with each operand independently a window in a junk parent; three-way oracle",
         "window column offsets are multiples of 64 (documented precondition); *_russian building blocks only on even word offsets; samples"),
 "C10": (1, "exploration", "property-based testing (rapidcheck): metamorphic relation fresh state vs. generated call history + heap patterns injected by an allocation wrapper, plus the model oracle",
         "the block cache is primed with dirty blocks of exactly the shapes the final operation allocates; fresh heap blocks are pattern-filled and freed ones poisoned through -Wl,--wrap; output digests (canonical outputs plus a raw digest of everything written, incl. full permutation arrays) must agree between the fresh state (zero-filled heap) and the state after the history (incl. the same operation on other data immediately before), and - for overwriting operations - between junk / all-zero / all-one destination contents and identity / other prior contents of supplied permutations; every owned matrix must have zero padding (judged in every state; residue sweep over the transpose kernels)",
         "results are compared through digests; the wrapper sees only allocations made from the linked objects (not libpng/libc internals)"),
 "C11": (1, "exploration", "property-based testing (rapidcheck) under fatal ASan/UBSan with an allocator-balance invariant; forked-child fate checks for ill-dimensioned wrapper calls",
         "all catalogue cases with window placements at 8-mod-16 row starts in builds where any sanitizer report kills the process (the journal entry is the verdict); live allocation set must return to its pre-call value (thread-safe build: headers are heap blocks); every checked wrapper x operand with a wrong dimension must die in m4ri_die with operands bit-identical",
         "memory errors that neither ASan nor UBSan can see (e.g. reads of initialised padding inside an allocation) are outside this monitor; C09/C10 cover them semantically"),
 "C12": (1, "exploration", "differential testing of one rapidcheck-generated case list across build configurations produced by the repository's own configure, and across parameter values",
         ">= 7 (quick) / >= 23 (thorough) configurations incl. random cache triples, each case with two further k / cutoff values; canonical digests must agree everywhere and with the reference model",
         "sanitizer flags and -O1 are the harness's, everything else in the configuration header comes from configure; <= 23 configurations per run"),
 "C13": (1, "exploration", "property-based testing (rapidcheck): swap-sequence semantics in a reference model; exhaustive bit-position pairs and (spot,n) ranges",
         "statement's semantics executed literally in the model incl. Pi*A / A*Pi for the same Pi and undo by the transposed counterpart; permutations identity / single / sparse / random / structured (run exchanges, rotations); rows of more than 65536 words for the bulk column kernel",
         "LAPACK swap form i <= P[i] < length; distinct rows for row addition; trusts the reference model"),
 "C14": (1, "exploration", "stateful model-based testing (rapidcheck-generated command lists against a model of the live set), allocation wrapper for the final balance",
         "histories cross the 64-header block, the 16-block limit, the 16-slot block cache incl. eviction and dirty reuse, fini + init in mid-history, zero-area matrices and zero-area windows; invariants after every command; builds in which any ASan report (double free, free of a live block, use after free) is fatal",
         "the history is interpreted leniently (indices modulo the live set) so that every generated list is valid; the balance check needs the wrapper builds"),
 "C15": (1, "exploration", "property-based testing (rapidcheck-generated per-thread programs) under ThreadSanitizer + differential against the sequential execution",
         "2..16 threads on thread-private operands in the --enable-thread-safe configuration (header from the repository's configure); a race report terminates the process and is the verdict",
         "schedules are sampled, not enumerated; a race on a path no generated program takes is not seen"),
 "C16": (1, "exploration", "property-based testing (rapidcheck) across OpenMP thread counts and nesting levels, differential against the sequential build, ThreadSanitizer + Archer slice",
         "every execution equals the reference model; all thread counts give one digest; the shared case list gives the same digests in the sequential build; shapes with more than 512 x T rows (second static chunk per thread), wide and very wide eliminations (work thresholds)",
         "schedules are sampled; Archer judges only the executions that happened"),
 "C17": (1, "exploration", "property-based testing (rapidcheck): observers vs. model predicates and the comparison laws, on owned matrices and windows",
         "near-equal pairs/triples, single-one regions per word class, all four pivot-search paths labelled",
         "mzd_cmp is judged by its laws, not by a particular order; trusts the reference model"),
 "C18": (1, "exploration", "property-based testing (rapidcheck): round trips with an independent reference PNG codec, grammar-based malformed files read in forked children of the fatal-sanitizer build; coverage-guided libFuzzer slice with a semantic oracle in both tiers (20 s x 4 workers quick, 600 s x 8 thorough)",
         "every bit depth x colour type x interlace x narrow widths, structure-aware mutations with valid CRCs, JCF single-token corruptions; fates classified (NULL / abort / matrix equal to what the file denotes); intact files of an unsupported kind must be rejected; round trips with a dimension above one million",
         "libpng internals are not judged; abort() through libpng's default error path is an accepted rejection"),
 "C19": (1, "exploration", "exhaustive enumeration of the finite domains + property-based testing (rapidcheck) of the table builder and word kernels",
         "code book k=1..16, all masks, complete single-bit bases of the linear word kernels are enumerated completely; mzd_make_table (rows from owned matrices and from windows) and random combinations are sampled",
         "definitions are stated in the orientation the code uses (bit b of a pattern <-> row r+b); linearity of the word kernels justifies the basis argument"),
 "C20": (1, "fault_enumeration", "exhaustive single-fault injection per scenario instance via -Wl,--wrap allocation wrapper and forked children; scenario sizes partly rapidcheck-generated",
         "for each of 49 scenarios x size variants (incl. data blocks above 1 MiB / above the cache threshold, 4-row operands with 4200 / 33000 columns, 70..198 and 1031 live headers, library re-initialisation, the hybrid echelon form's mid-run hand-over) in four configurations (incl. the posix_memalign branch of the allocation primitives) every allocation request index is failed once; required fate SIGABRT with a diagnostic and no sanitizer report",
         "only requests issued from m4ri objects fail (libc/libpng internals are not intercepted); size-0 requests never fail"),
}


def main():
    checks = []
    na = []
    for pid in sorted(T):
        impl, level, tech, text, note = T[pid]
        if pid in FUZZ_PROPS:
            tech += " + coverage-guided fuzzing (libFuzzer target fz_ops mutating the choice string of the same generator, same oracle)"
        if not impl:
            na.append(dict(property_id=pid, reason="check not built yet in this revision (planned, see DESIGN.md section 5); the technique applies"))
            continue
        checks.append(dict(property_id=pid, quick_cmd="python3 bin/vcheck.py %s quick" % pid,
                           thorough_cmd="python3 bin/vcheck.py %s thorough" % pid,
                           evidence_file="evidence/%s.json" % pid,
                           replay_cmd_template="python3 bin/vcheck.py --replay {path}", engine="vf",
                           level_claimed=dict(category=level, text=text, design_ref="DESIGN.md section 5 " + pid),
                           level_note=note, technique=tech))
    man = dict(version=1, setup_cmd="python3 bin/vbuild.py --setup",
               hooks=dict(guard="M4RI_VERIF",
                          enable="no hooks: the checks compile /repo/m4ri/*.c directly per build configuration (bin/vbuild.py); nothing in /repo is guarded and there are no hook commits",
                          baseline_off_cmd="cd /repo && make check", source_commits=[], add_only=True),
               engines=[dict(name="vf", path="src/", serves_properties=[c["property_id"] for c in checks],
                             kind_free_text="rapidcheck property harness (C++) with a reference GF(2) model; linked against /repo/m4ri/*.c compiled per build configuration with ASan/UBSan (or TSan); sharded and driven by bin/vcheck.py; libFuzzer targets: fz_io (file readers on arbitrary bytes) and fz_ops (the catalogue generators driven by a fuzzer-owned choice string)")],
               checks=checks, not_applicable=na,
               notes="fix: commits in /repo are listed in KNOWN_FINDINGS.txt; every check replays replays/known/* first")
    with open(os.path.join(VERIF, "MANIFEST.json"), "w") as f:
        json.dump(man, f, indent=1)
    print("wrote MANIFEST.json: %d checks, %d not_applicable" % (len(checks), len(na)))


if __name__ == "__main__":
    main()
