#!/usr/bin/env python3
"""vcheck.py <Cxx> <quick|thorough>   |   vcheck.py --replay <file>

Builds the configurations the property needs from /repo's current working tree, replays the saved
regression inputs, runs the sharded rapidcheck campaign, merges statistics, writes
evidence/<id>.json and prints `VIOLATION property=<id> replay=<path>` (exit 1) on a confirmed failure.
Exit 2 = infrastructure failure (never used to hide a failing oracle)."""
import hashlib, json, os, re, subprocess, sys, time, glob, shutil, signal
from concurrent.futures import ThreadPoolExecutor

sys.path.insert(0, os.path.dirname(os.path.abspath(__file__)))
import vbuild

VERIF = vbuild.VERIF
EVID = os.path.join(VERIF, "evidence")
RUN = os.path.join(VERIF, "build", "run")
KNOWN = os.path.join(VERIF, "replays", "known")
FOUND = os.path.join(VERIF, "replays", "found")
KF_FILE = os.path.join(VERIF, "KNOWN_FINDINGS.txt")

# ------------------------------------------------------------------------------------------------
# plans: per property and tier.  cases are per shard; shards are spread over the configurations.
# ------------------------------------------------------------------------------------------------
SEM = ["small", "small-nosse"]
WRAP = ["small-wrap", "small-nosse-wrap"]
WRAPS = ["small-wrap-strict", "small-nosse-wrap-strict"]
STRICT4 = ["small-strict", "small-nosse-strict", "small-ts-wrap-strict", "small-wrap-strict"]
FAULT3 = ["small-wrap-strict", "small-ts-wrap-strict", "small-nosse-wrap-strict", "small-posix-wrap-strict"]


def P(level, qc, qn, qs, tc, tn, ts, shards=16, **kw):
    return dict(level=level, quick=dict(cfgs=qc, shards=shards, cases=qn, scale=qs, maxsize=100, **kw),
                thorough=dict(cfgs=tc, shards=shards, cases=tn, scale=ts, maxsize=100, **kw))


# coverage-guided slice (libFuzzer target src/fz_ops.cpp driving the property's own generator): (seconds, workers, scale)
FUZZ_SLICE = {"quick": (12, 8, 700), "thorough": (420, 16, 1000)}  # scale is capped by the plan's scale
FUZZ_PROPS = ("C01", "C02", "C03", "C04", "C05", "C06", "C07", "C08", "C09", "C11", "C13", "C14", "C17")


PLANS = {
    "C01": P("exploration", SEM + ["small-omp"], 16000, 800, SEM + ["mid", "host-nosse", "small-omp"], 48000, 1500,
             env={"OMP_NUM_THREADS": "2", "OMP_WAIT_POLICY": "passive"}),
    "C02": P("exploration", SEM, 24000, 700, SEM + ["mid", "host"], 72000, 1300),
    "C03": P("exploration", SEM, 15000, 700, SEM + ["mid", "host"], 45000, 1300),
    "C04": P("exploration", SEM, 30000, 700, SEM + ["mid", "host"], 90000, 1400),
    "C05": P("exploration", SEM, 20000, 600, SEM + ["mid", "host"], 60000, 1100),
    "C06": P("exploration", SEM, 12000, 600, SEM + ["mid", "host"], 60000, 1200),
    "C07": P("exploration", SEM, 15000, 600, SEM + ["mid", "host"], 100000, 1200),
    "C08": P("exploration", SEM, 60000, 900, SEM + ["host", "host-nosse"], 180000, 1700),
    "C09": P("exploration", SEM, 32000, 500, SEM + ["mid", "host"], 100000, 900),
    "C10": P("exploration", WRAP, 2000, 400, WRAP, 8000, 800),
    "C11": P("exploration", STRICT4, 10000, 400, STRICT4, 30000, 800, strict=True, san_to_stderr=True),
    "C13": P("exploration", ["small", "small-nosse", "mid"], 48000, 500, ["small", "small-nosse", "mid", "host"], 150000, 1200, shards=15),
    # allocator misuse that ASan can see (double free, free of a live block, use after free) IS this property's violation:
    # builds in which any sanitizer report is fatal
    "C14": P("exploration", WRAPS, 1500, 100, WRAPS + ["small-ts-wrap-strict"], 5000, 100, case_timeout=900, strict=True,
             san_to_stderr=True),
    "C17": P("exploration", SEM, 60000, 400, SEM + ["host"], 200000, 1000),
    "C18": P("exploration", ["small-strict", "small-nosse-strict"], 2000, 300, ["small-strict", "small-nosse-strict"], 8000, 600,
             strict=True, san_to_stderr=True),
    "C19": P("exploration", SEM, 100000, 300, SEM + ["host", "host-nosse"], 100000, 600),
    "C20": P("fault_enumeration", FAULT3, 120, 100, FAULT3, 400, 100, shards=16, strict=True, san_to_stderr=True, case_timeout=1500),
}


def log(*a):
    print("[vcheck]", *a, file=sys.stderr, flush=True)


def seed_for(base, prop, cfg, shard):
    h = hashlib.sha256(("%d/%s/%s/%d" % (base, prop, cfg, shard)).encode()).digest()
    return int.from_bytes(h[:4], "little") % 2000000000 + 1


def san_env(logbase, strict=False, extra=None):
    env = dict(os.environ)
    env["ASAN_OPTIONS"] = "halt_on_error=%d:detect_leaks=0:allocator_may_return_null=1:quarantine_size_mb=64:log_path=%s:abort_on_error=%d" % (
        1 if strict else 0, logbase, 1 if strict else 0)
    env["UBSAN_OPTIONS"] = "print_stacktrace=1:log_path=%s:halt_on_error=%d" % (logbase, 1 if strict else 0)
    env["TSAN_OPTIONS"] = "log_path=%s:halt_on_error=0:ignore_noninstrumented_modules=1" % logbase
    if extra:
        env.update(extra)
    return env


def count_reports(logbase):
    n = 0
    kinds = {}
    for f in glob.glob(logbase + ".*"):
        try:
            t = open(f, errors="replace").read()
        except OSError:
            continue
        for m in re.finditer(r"(ERROR: AddressSanitizer: [a-z\-]+|runtime error: [^\n]{0,80}|WARNING: ThreadSanitizer: [a-z ]+)", t):
            n += 1
            k = m.group(1)[:70]
            kinds[k] = kinds.get(k, 0) + 1
    return n, kinds


def load_known():
    out = []
    if not os.path.exists(KF_FILE):
        return out
    for line in open(KF_FILE):
        line = line.strip()
        if not line or line.startswith("#"):
            continue
        m = re.match(r"(finding|fixed): property=(C\d+)\s+(.*)", line)
        if not m:
            continue
        kind, prop, rest = m.groups()
        d = dict(kind=kind, prop=prop, text=rest)
        mk = re.search(r"key=(\S+)", rest)
        mr = re.search(r"replay=(\S+)", rest)
        d["key"] = mk.group(1) if mk else ""
        d["replay"] = mr.group(1) if mr else ""
        d["what"] = re.sub(r"(key|replay)=\S+\s*", "", rest).strip()
        out.append(d)
    return out


def run_replay(binary, path, strict=False, timeout=600, extra_env=None):
    """returns (status, output): status in pass / fail / crash"""
    os.makedirs(RUN, exist_ok=True)
    logbase = os.path.join(RUN, "replay-san-%d" % os.getpid())
    for f in glob.glob(logbase + ".*"):
        os.remove(f)
    try:
        r = subprocess.run([binary, "replay", path], stdout=subprocess.PIPE, stderr=subprocess.PIPE,
                           env=san_env(logbase, strict, extra_env), timeout=timeout)
    except subprocess.TimeoutExpired:
        return "timeout", ""
    out = r.stdout.decode(errors="replace") + r.stderr.decode(errors="replace")[-3000:]
    for f in glob.glob(logbase + ".*"):
        try:
            out += open(f, errors="replace").read()[:3000]
            os.remove(f)
        except OSError:
            pass
    if r.returncode == 0:
        return "pass", out
    if r.returncode == 1 and "FAIL " in out:
        return "fail", out
    return "crash", out


def write_evidence(prop, tier, seed, level, coverage, wall, violations, assumptions):
    os.makedirs(EVID, exist_ok=True)
    ev = dict(property_id=prop, tier=tier, seed=seed, level=level, coverage=coverage, assumptions=assumptions,
              wall_s=round(wall, 2), violations=violations)
    tmp = os.path.join(EVID, prop + ".json.tmp")
    with open(tmp, "w") as f:
        json.dump(ev, f, indent=1)
    os.replace(tmp, os.path.join(EVID, prop + ".json"))


def save_found(prop, case, msg, cfg):
    os.makedirs(FOUND, exist_ok=True)
    h = hashlib.sha256(case.encode()).hexdigest()[:12]
    p = os.path.join(FOUND, "%s-%s.case" % (prop, h))
    with open(p, "w") as f:
        f.write("# property %s, configuration %s\n# %s\n" % (prop, cfg, msg.replace("\n", " ")[:400]))
        f.write("# replay: python3 bin/vcheck.py --replay %s\n" % os.path.relpath(p, VERIF))
        f.write("#cfg=%s\n" % cfg)
        f.write(case + "\n")
    return p


def replay_cfg_of(path, default="small"):
    for line in open(path):
        if line.startswith("#cfg="):
            return line.strip()[5:]
    return default


ASSUMPTIONS = {
    "default": ["the reference model (src/model.hpp: schoolbook GF(2) algorithms) is correct; its self-consistency "
                "identities are checked by C19's run",
                "operands satisfy the documented preconditions (positive dimensions, window column offsets multiples "
                "of 64, exact-size destinations unless stated)",
                "the library is compiled with -DNDEBUG as shipped; sanitizer reports in this semantic check are "
                "counted, not judged (they belong to C11)"],
}


def generic_check(prop, tier, seed, plan=None, binaries=None, extra_args=None, strict=False, extra_env=None):
    """Run the sharded rapidcheck campaign of `prop`.  Returns dict with merged stats and failures."""
    t0 = time.time()
    plan = plan or PLANS[prop][tier]
    cfgs = plan["cfgs"]
    if binaries is None:
        binaries = vbuild.build(cfgs)
    os.makedirs(RUN, exist_ok=True)
    rundir = os.path.join(RUN, "%s-%s" % (prop, tier))
    shutil.rmtree(rundir, ignore_errors=True)
    os.makedirs(rundir)
    # every configuration gets its own complete set of shards, so enumerated (deterministic) cases are run in
    # full under each configuration and random cases use different seeds per (configuration, shard)
    per = max(1, plan["shards"] // len(cfgs))
    jobs = []
    for ci, cfg in enumerate(cfgs):
        for sh in range(per):
            tag = "%s-%d" % (cfg, sh)
            out = os.path.join(rundir, "stats-%s.json" % tag)
            jr = os.path.join(rundir, "journal-%s.txt" % tag)
            logbase = os.path.join(rundir, "san-%s" % tag)
            cmd = [binaries[cfg], "check", prop, "--cases", str(plan["cases"]), "--scale", str(plan["scale"]),
                   "--maxsize", str(plan.get("maxsize", 100)), "--tier", "1" if tier == "thorough" else "0",
                   "--shard", str(sh), "--nshards", str(per), "--seed", str(seed_for(seed, prop, cfg, sh)),
                   "--out", out, "--journal", jr] + (extra_args or [])
            jobs.append(dict(sh=sh, cfg=cfg, cmd=cmd, out=out, journal=jr, logbase=logbase))

    def runjob(j):
        env = san_env(j["logbase"], strict, extra_env)
        env["VF_TMP"] = rundir
        if plan.get("env"):
            env.update(plan["env"])
        env["VF_CASE_TIMEOUT"] = str(plan.get("case_timeout", 240 if tier == "quick" else 900))
        ebs = plan.get("env_by_shard")
        if ebs:
            env.update(ebs[j["sh"] % len(ebs)])
        if plan.get("san_to_stderr"):
            env["ASAN_OPTIONS"] = re.sub(r":log_path=[^:]*", "", env["ASAN_OPTIONS"])
            env["UBSAN_OPTIONS"] = re.sub(r":log_path=[^:]*", "", env["UBSAN_OPTIONS"])
        # watchdog: a shard that exceeds its (generous) wall-clock budget is killed; the recipe it was executing is then
        # replayed under a per-case limit - only a reproducible hang of that single case is reported
        budget = plan.get("shard_timeout", 1200 if tier == "quick" else 14400)
        try:
            r = subprocess.run(j["cmd"], stdout=subprocess.PIPE, stderr=subprocess.PIPE, env=env, timeout=budget)
            j["rc"] = r.returncode
            j["stdout"] = r.stdout.decode(errors="replace")
            j["stderr"] = r.stderr.decode(errors="replace")[-4000:]
        except subprocess.TimeoutExpired as te:
            j["rc"] = -999
            j["stdout"] = ""
            j["stderr"] = "shard exceeded its wall-clock budget of %d s and was killed" % budget
        return j

    with ThreadPoolExecutor(vbuild.JOBS) as pool:
        jobs = list(pool.map(runjob, jobs))

    merged = dict(evaluations=0, subcases=0, enumerated=0, labels={}, nontrivial=set(), samples=[], failures=[],
                  san_reports=0, san_kinds={}, per_cfg={}, shard_wall=[])
    for j in jobs:
        st = None
        if os.path.exists(j["out"]):
            try:
                st = json.load(open(j["out"]))
            except Exception:
                st = None
        if st:
            merged["evaluations"] += st["evaluations"]
            merged["subcases"] += st["subcases"]
            merged["enumerated"] += st["enumerated"]
            for k, v in st["labels"].items():
                merged["labels"][k] = merged["labels"].get(k, 0) + v
            merged["nontrivial"].update(st["nontrivial"])
            merged["samples"].extend(st["samples"][:6] if len(merged["samples"]) < 24 else st["samples"][:1])
            merged["per_cfg"][j["cfg"]] = merged["per_cfg"].get(j["cfg"], 0) + st["evaluations"]
            merged["shard_wall"].append(st["wall_s"])
        n, kinds = count_reports(j["logbase"])
        merged["san_reports"] += n
        for k, v in kinds.items():
            merged["san_kinds"][k] = merged["san_kinds"].get(k, 0) + v
        if j["rc"] == 0:
            continue
        if j["rc"] == 1 and st and st.get("fail_case"):
            merged["failures"].append(dict(kind="oracle", cfg=j["cfg"], case=st["fail_case"], msg=st["fail_msg"]))
        else:
            case = ""
            if os.path.exists(j["journal"]):
                case = open(j["journal"]).read().strip()
            if j["rc"] == -14:
                merged["failures"].append(dict(kind="hang", cfg=j["cfg"], case=case,
                                               msg="hang: a single case exceeded the per-case limit (SIGALRM)"))
            elif j["rc"] == -999:
                msg = "hang: " + j["stderr"]
                merged["failures"].append(dict(kind="hang", cfg=j["cfg"], case=case, msg=msg))
            else:
                msg = "process died rc=%s: %s" % (j["rc"], (j["stderr"] or "")[-600:].replace("\n", " | "))
                merged["failures"].append(dict(kind="crash", cfg=j["cfg"], case=case, msg=msg))
    merged["wall"] = time.time() - t0
    merged["binaries"] = binaries
    return merged


def ops_fuzz_slice(prop, tier, seed, plan, merged):
    """Coverage-guided slice: libFuzzer mutates the choice string of the property's generator (src/fz_ops.cpp); failing
    recipes join merged["failures"] and are confirmed by replay with the ordinary binary like any other failure."""
    import random
    seconds, workers, scale = FUZZ_SLICE[tier]
    scale = min(scale, plan["scale"])
    if os.environ.get("VERIF_FUZZ_SECONDS"):
        seconds = int(os.environ["VERIF_FUZZ_SECONDS"])
    if os.environ.get("VERIF_FUZZ_SCALE"):
        scale = int(os.environ["VERIF_FUZZ_SCALE"])
    fz = vbuild.build_fuzzer("fz_ops", "small-fuzz")
    rundir = os.path.join(RUN, "%s-%s-fuzz" % (prop, tier))
    shutil.rmtree(rundir, ignore_errors=True)
    cdir, adir, odir = (os.path.join(rundir, x) for x in ("corpus", "artifacts", "recipes"))
    for d in (cdir, adir, odir):
        os.makedirs(d)
    rnd = random.Random(seed_for(seed, prop, "small-fuzz", 0))
    for i in range(96):
        open(os.path.join(cdir, "seed%02d" % i), "wb").write(bytes(rnd.randrange(256) for _ in range(1024)))
    env = dict(os.environ)
    env["ASAN_OPTIONS"] = "detect_leaks=0:allocator_may_return_null=1:quarantine_size_mb=64"
    env["UBSAN_OPTIONS"] = "print_stacktrace=1"
    env.update(VF_FZ_PROP=prop, VF_FZ_OUT=odir, VF_FZ_SCALE=str(scale), VF_FZ_TIER="1" if tier == "thorough" else "0", VF_TMP=rundir)
    if plan.get("env"):
        env.update(plan["env"])
    procs = []
    for wk in range(workers):
        e = dict(env, VF_FZ_STATS=os.path.join(rundir, "stats-%d.json" % wk))
        cmd = [fz, "-max_total_time=%d" % seconds, "-max_len=1024", "-len_control=0", "-use_value_profile=1", "-timeout=300",
               "-rss_limit_mb=4000", "-artifact_prefix=" + adir + "/", "-seed=%d" % seed_for(seed, prop, "small-fuzz", wk + 1),
               "-print_final_stats=1", cdir]
        procs.append(subprocess.Popen(cmd, stdout=subprocess.DEVNULL, stderr=open(os.path.join(rundir, "fz-%d.log" % wk), "w"), env=e))
    for pr in procs:
        try:
            pr.wait(timeout=seconds + 900)
        except subprocess.TimeoutExpired:
            pr.kill()
    execs = 0
    for wk in range(workers):
        f = os.path.join(rundir, "stats-%d.json" % wk)
        try:
            st = json.load(open(f))
        except Exception:
            continue
        execs += st["evaluations"]
        merged["evaluations"] += st["evaluations"]
        merged["subcases"] += st["subcases"]
        for k, v in st["labels"].items():
            merged["labels"][k] = merged["labels"].get(k, 0) + v
        merged["nontrivial"].update(st["nontrivial"])
        if wk < 2:
            merged["samples"].extend(st["samples"][:2])
        merged["per_cfg"]["small-fuzz(libFuzzer)"] = merged["per_cfg"].get("small-fuzz(libFuzzer)", 0) + st["evaluations"]
    merged["labels"]["fuzz:executions"] = execs
    # sanitizer deaths / signals leave libFuzzer's own crash-* artifact: ask the target which recipe each one stands for
    for art in sorted(glob.glob(os.path.join(adir, "crash-*")))[:12]:
        subprocess.run([fz, art], env=dict(env, VF_FZ_DECODE="1"), stdout=subprocess.DEVNULL, stderr=subprocess.DEVNULL, timeout=120)
    recipes = sorted(glob.glob(os.path.join(odir, "viol-*.case"))) + sorted(glob.glob(os.path.join(odir, "crash-*.case")))
    seen = set()
    for r in recipes:
        lines = open(r).read().splitlines()
        body = [l for l in lines if l and not l.startswith("#")]
        msg = " ".join(l[2:] for l in lines if l.startswith("# "))
        if not body or body[0] in seen:
            continue
        seen.add(body[0])
        kind = "oracle" if os.path.basename(r).startswith("viol-") else "crash"
        merged["failures"].append(dict(kind=kind, cfg=plan["cfgs"][0], case=body[0], msg="[libFuzzer slice] " + msg, minimise=True))
    return dict(target="fz_ops", workers=workers, seconds=seconds, scale=scale, executions=execs,
                corpus_files=len(os.listdir(cdir)), failing_recipes=len(seen),
                other_artifacts=len([a for a in os.listdir(adir) if not a.startswith("crash-")]))


FUZZ_RULE = (" | coverage-guided slice: libFuzzer (target src/fz_ops.cpp, library objects instrumented for coverage and built with "
             "fatal ASan+UBSan) mutates the choice string consumed by this same generator, so the reachable cases and the oracle "
             "are the ones described above; a failing recipe counts only if it reproduces with the ordinary binary")


def confirm(prop, fail, binaries, strict=False, extra_env=None, runs=3, need=2):
    """Replay a failure in fresh processes; returns path of the replay file if it reproduces."""
    if not fail["case"]:
        return None, "no journal entry"
    p = save_found(prop, fail["case"], fail["msg"], fail["cfg"])
    hits = 0
    last = ""
    for _ in range(runs):
        st, out = run_replay(binaries[fail["cfg"]], p, strict, extra_env=extra_env,
                             timeout=200 if fail.get("kind") == "hang" else 900)
        if fail.get("kind") == "hang" and st == "pass":
            break  # the single case terminates: the shard was merely slow (inconclusive, not a violation)
        last = out
        if st in ("fail", "crash", "timeout"):
            hits += 1
        if hits >= need:
            break
    if hits >= need:
        if (fail.get("kind") == "crash" or fail.get("minimise")) and os.environ.get("VERIF_NO_MINIMISE") != "1":
            try:
                minimise(prop, p, binaries[fail["cfg"]], strict, extra_env)
            except Exception as e:
                log("minimisation skipped: %s" % str(e)[-200:])
        return p, last
    os.remove(p)
    return None, last


DIM_KEYS = ("m", "n", "l", "w", "x2", "ma", "mb", "na", "nb", "a", "b", "c", "T", "steps")


def minimise(prop, path, binary, strict=False, extra_env=None, budget_s=90):
    """Out-of-process minimisation of a failing recipe (used for crashes and hangs, which bypass rapidcheck's in-process
    shrinking): drop window placements, simplify patterns, shrink dimensions - keeping a candidate only while the replay
    still fails in the same way.  Rewrites the replay file in place; bounded by budget_s."""
    t0 = time.time()
    lines = [l for l in open(path).read().splitlines()]
    head = [l for l in lines if l.startswith("#")]
    body = [l for l in lines if l and not l.startswith("#")]
    if len(body) != 1:
        return
    case = body[0]
    st0, _ = run_replay(binary, path, strict, timeout=120, extra_env=extra_env)
    if st0 not in ("fail", "crash"):
        return

    def still_fails(cand):
        tmp = path + ".min"
        with open(tmp, "w") as f:
            f.write("\n".join(head) + "\n" + cand + "\n")
        st, _ = run_replay(binary, tmp, strict, timeout=60, extra_env=extra_env)
        os.remove(tmp)
        return st == st0

    def toks(c):
        return [t.split("=", 1) for t in c.split(" ")]

    def join(kv):
        return " ".join("%s=%s" % (k, v) for k, v in kv)

    changed = True
    while changed and time.time() - t0 < budget_s:
        changed = False
        kv = toks(case)
        # 1. drop the window placement of one operand at a time
        prefixes = sorted(set(k.rsplit(".", 1)[0] for k, v in kv if k.endswith(".view")))
        for pfx in prefixes:
            cand = join([(k, v) for k, v in kv if not (k.startswith(pfx + ".") and k.rsplit(".", 1)[1] in ("view", "top", "bot", "lw", "rw", "slack", "fill", "fseed", "nest"))])
            if cand != case and still_fails(cand):
                case, changed = cand, True
                break
        if changed or time.time() - t0 > budget_s:
            continue
        # 2. simpler patterns and seeds
        for i, (k, v) in enumerate(kv):
            if k.endswith(".pat") and v not in ("zero", "ident", "dense"):
                for simple in ("zero", "ident", "dense"):
                    cand = join(kv[:i] + [(k, simple)] + kv[i + 1:])
                    if still_fails(cand):
                        case, changed = cand, True
                        break
            if changed:
                break
            if (k.endswith("seed") or k.endswith(".jseed")) and v not in ("0x0", "0x1"):
                cand = join(kv[:i] + [(k, "0x1")] + kv[i + 1:])
                if still_fails(cand):
                    case, changed = cand, True
                    break
        if changed or time.time() - t0 > budget_s:
            continue
        # 3. smaller dimensions (halve, then decrement)
        for i, (k, v) in enumerate(kv):
            if k in DIM_KEYS and v.lstrip("-").isdigit() and int(v) > 1:
                for nv in (int(v) // 2, int(v) - 64, int(v) - 1):
                    if nv >= 1 and nv < int(v):
                        cand = join(kv[:i] + [(k, str(nv))] + kv[i + 1:])
                        if still_fails(cand):
                            case, changed = cand, True
                            break
            if changed:
                break
    with open(path, "w") as f:
        f.write("\n".join(head) + "\n# (minimised out of process by bin/vcheck.py)\n" + case + "\n")


def regression_tier(prop, binaries, default_cfg, strict=False, extra_env=None):
    """Replay replays/known/<prop>-*.case.  Files named in `finding:` lines must still fail (KNOWN-FINDING);
    all others (incl. those of `fixed:` entries) must pass."""
    known = [k for k in load_known() if k["prop"] == prop]
    finding_files = {os.path.join(VERIF, k["replay"]): k for k in known if k["kind"] == "finding" and k["replay"]}
    res = dict(replayed=0, known_findings=[], violations=[])
    for p in sorted(glob.glob(os.path.join(KNOWN, prop + "-*.case"))):
        cfg = replay_cfg_of(p, default_cfg)
        if cfg not in binaries:
            if cfg.startswith("r-"):
                import vspecial
                hdrs, _e = vspecial.ensure_cfg(cfg)
                binaries.update(vbuild.build([cfg], hdrs))
            else:
                binaries.update(vbuild.build([cfg]))
        st, out = run_replay(binaries[cfg], p, strict, extra_env=extra_env)
        res["replayed"] += 1
        if p in finding_files:
            if st != "pass":
                print("KNOWN-FINDING: property=%s %s" % (prop, finding_files[p]["what"]), flush=True)
                res["known_findings"].append(finding_files[p]["what"])
            else:
                log("note: listed finding no longer reproduces: %s" % p)
        elif st != "pass":
            res["violations"].append((p, out[-800:]))
    return res


def finish(prop, tier, seed, level, merged, reg, rule, t0, extra_cov=None, strict=False, extra_env=None,
           assumptions=None, confirm_runs=3, confirm_need=2):
    violations = []
    for p, out in reg["violations"]:
        violations.append(p)
        log("regression replay failed: %s\n%s" % (p, out))
    unrepro = []
    seen = set()
    # confirm oracle failures first, then crashes, then hangs (slow to confirm); a handful of confirmed replays is enough,
    # and hangs are only replayed when nothing else has been confirmed
    order = {"oracle": 0, "crash": 1, "hang": 2}
    ranked = sorted(merged["failures"], key=lambda f: order.get(f.get("kind"), 1))
    confirmed_n = 0
    for f in ranked:
        if f["case"] in seen:
            continue
        seen.add(f["case"])
        if confirmed_n >= 6 or (f.get("kind") == "hang" and (confirmed_n >= 1 or len(violations) >= 1)):
            continue
        if f.get("kind") == "oracle" and f["cfg"] not in merged["binaries"]:
            continue
        if f.get("kind") == "hang":
            p, out = confirm(prop, f, merged["binaries"], strict, extra_env, 2, 2)
        else:
            p, out = confirm(prop, f, merged["binaries"], strict, extra_env, confirm_runs, confirm_need)
        if p:
            violations.append(p)
            confirmed_n += 1
            log("confirmed failure (%s, cfg %s): %s\n  case: %s" % (f["kind"], f["cfg"], f["msg"][:500], f["case"]))
        else:
            unrepro.append(dict(case=f["case"], msg=f["msg"][:300]))
            log("failure did not reproduce (not a violation): %s :: %s" % (f["case"], f["msg"][:300]))
    cov = dict(evaluations=merged["evaluations"] + merged.get("subcases", 0),
               cases=merged["evaluations"], inner_evaluations_of_enumerating_cases=merged.get("subcases", 0),
               enumerated_cases=merged.get("enumerated", 0),
               distinct_nontrivial=len(merged["nontrivial"]), rule=rule,
               samples=merged["samples"][:24], labels=dict(sorted(merged["labels"].items())),
               configs=merged["per_cfg"], sanitizer_reports=merged["san_reports"],
               sanitizer_report_kinds=merged["san_kinds"], unreproduced=unrepro,
               regression_replays=reg["replayed"], known_findings=reg["known_findings"])
    if extra_cov:
        cov.update(extra_cov)
    write_evidence(prop, tier, seed, level, cov, time.time() - t0, len(violations),
                   assumptions or ASSUMPTIONS["default"])
    for p in violations:
        print("VIOLATION property=%s replay=%s" % (prop, os.path.relpath(p, VERIF)), flush=True)
    if merged["evaluations"] == 0 and not violations:
        log("no cases executed: infrastructure failure")
        return 2
    return 1 if violations else 0


def anchor_coverage(prop, seed, cases=3000, scale=700):
    """Supporting information for the thorough tier: line coverage of the property's anchored files reached by a slice of
    the campaign in an uninstrumented-by-sanitizers coverage build."""
    try:
        anchors = []
        for l in open(os.path.join(VERIF, "properties.jsonl")):
            d = json.loads(l)
            if d["id"] == prop:
                anchors = [f for f in d["anchors"]["files"] if f.startswith("m4ri/") and f.endswith((".c", ".h"))]
        if not anchors:
            return {}
        b = vbuild.build(["small-cov"])["small-cov"]
        d = os.path.join(RUN, "cov-%s" % prop)
        shutil.rmtree(d, ignore_errors=True)
        os.makedirs(d)
        procs = []
        for i in range(8):
            env = dict(os.environ, LLVM_PROFILE_FILE=os.path.join(d, "p%d.profraw" % i), VF_TMP=d)
            procs.append(subprocess.Popen([b, "check", prop, "--cases", str(cases), "--scale", str(scale), "--seed", str(seed_for(seed, prop, "cov", i)),
                                           "--shard", str(i), "--nshards", "8", "--tier", "1"], stdout=subprocess.DEVNULL, stderr=subprocess.DEVNULL, env=env))
        for pr in procs:
            pr.wait()
        prof = os.path.join(d, "all.profdata")
        subprocess.run(["llvm-profdata-14", "merge", "-o", prof] + glob.glob(os.path.join(d, "*.profraw")), check=True)
        files = [os.path.join(vbuild.REPO, a) for a in anchors]
        r = subprocess.run(["llvm-cov-14", "report", b, "-instr-profile=" + prof] + files, stdout=subprocess.PIPE, stderr=subprocess.DEVNULL)
        out = {}
        for ln in r.stdout.decode().splitlines():
            t = ln.split()
            if len(t) >= 10 and (t[0].endswith(".c") or t[0].endswith(".h")):
                out[t[0]] = t[9]  # line coverage column
        shutil.rmtree(d, ignore_errors=True)
        return out
    except Exception as e:
        return {"error": str(e)[-200:]}


def prop_rule(binary, prop):
    return RULES.get(prop, "")


RULES = {}


def main():
    if len(sys.argv) >= 3 and sys.argv[1] == "--replay":
        path = os.path.abspath(sys.argv[2])
        if not path.endswith(".case"):
            # a saved libFuzzer input: run the fuzz target on it
            fz = vbuild.build_fuzzer("fz_io", "small-fuzz")
            env = dict(os.environ, ASAN_OPTIONS="detect_leaks=0:allocator_may_return_null=1", VF_TMP=RUN)
            os.makedirs(RUN, exist_ok=True)
            r = subprocess.run([fz, path], env=env)
            print("replay status:", "pass" if r.returncode == 0 else "fail")
            sys.exit(0 if r.returncode == 0 else 1)
        cfg = replay_cfg_of(path)
        extra = None
        if cfg.startswith("r-"):
            import vspecial
            hdrs, extra = vspecial.ensure_cfg(cfg)
            b = vbuild.build([cfg], hdrs)
        else:
            b = vbuild.build([cfg])
        st, out = run_replay(b[cfg], path, strict="strict" in cfg, extra_env=extra)
        print(out)
        print("replay status:", st)
        sys.exit(0 if st == "pass" else 1)
    if len(sys.argv) < 3:
        print(__doc__)
        sys.exit(2)
    prop, tier = sys.argv[1], sys.argv[2]
    tier = os.environ.get("VERIF_TIER", tier) if tier not in ("quick", "thorough") else tier
    seed = int(os.environ.get("VERIF_SEED", "1") or "1")
    if seed == 0:
        seed = 1
    t0 = time.time()
    import vspecial
    if prop in vspecial.SPECIAL:
        try:
            rc = vspecial.SPECIAL[prop](prop, tier, seed)
        except SystemExit:
            raise
        except Exception as e:  # infrastructure failure: never disguised as a verdict
            import traceback
            traceback.print_exc()
            log("infrastructure failure:", str(e)[-500:])
            rc = 2
        sys.exit(rc)
    if prop not in PLANS:
        log("no plan for", prop)
        sys.exit(2)
    try:
        plan = PLANS[prop][tier]
        binaries = vbuild.build(plan["cfgs"])
        reg = regression_tier(prop, binaries, plan["cfgs"][0], strict=bool(plan.get("strict")))
        strict = bool(plan.get("strict"))
        merged = generic_check(prop, tier, seed, plan, binaries, strict=strict)
        rule = subprocess.run([binaries[plan["cfgs"][0]], "rule", prop], stdout=subprocess.PIPE).stdout.decode().strip()
        extra = None
        if prop in FUZZ_PROPS and os.environ.get("VERIF_NO_FUZZ") != "1":
            extra = dict(fuzz_slice=ops_fuzz_slice(prop, tier, seed, plan, merged))
            rule += FUZZ_RULE
        if tier == "thorough" and not any("wrap" in c for c in plan["cfgs"]):
            extra = dict(extra or {}, line_coverage_of_anchors=anchor_coverage(prop, seed))
        rc = finish(prop, tier, seed, PLANS[prop]["level"], merged, reg, rule, t0, strict=strict, extra_cov=extra)
    except RuntimeError as e:
        log("infrastructure failure:", str(e)[-3000:])
        sys.exit(2)
    except Exception as e:
        import traceback
        traceback.print_exc()
        log("infrastructure failure:", str(e)[-500:])
        sys.exit(2)
    vbuild.gc_objects()
    log("%s %s: %d cases, wall %.1fs, rc=%d" % (prop, tier, merged["evaluations"], time.time() - t0, rc))
    sys.exit(rc)


if __name__ == "__main__":
    main()
