#!/usr/bin/env python3
"""vallocsites.py [prop=C20] [cases]  — development aid, not a check: which allocating call sites of /repo/m4ri are reached
(and therefore failed once per request) by the fault scenarios of C20?  Runs the property in the small-wrap build with
VF_ALLOC_SITES set (shim/wrapalloc.c appends the call chain of every counted request), symbolizes the chains and lists the
source lines of /repo/m4ri that call an allocating function but never appear in a chain."""
import glob, os, re, shutil, struct, subprocess, sys
sys.path.insert(0, os.path.dirname(os.path.abspath(__file__)))
import vbuild

ALLOC = re.compile(r"\b(m4ri_mm_malloc|m4ri_mm_calloc|m4ri_mm_malloc_aligned|m4ri_mmc_malloc|m4ri_mmc_calloc|malloc|calloc|realloc|"
                   r"posix_memalign|_mm_malloc)\s*\(")


def main():
    prop = sys.argv[1] if len(sys.argv) > 1 else "C20"
    cases = sys.argv[2] if len(sys.argv) > 2 else "200"
    cfg = os.environ.get("VALLOC_CFG", "small-wrap")
    b = vbuild.build([cfg])[cfg]
    d = os.path.join(vbuild.VERIF, "build", "run", "allocsites")
    shutil.rmtree(d, ignore_errors=True)
    os.makedirs(d)
    procs = []
    for i in range(8):
        env = dict(os.environ, VF_ALLOC_SITES=os.path.join(d, "sites-%d.bin" % i), VF_TMP=d, ASAN_OPTIONS="detect_leaks=0",
                   VF_CASE_TIMEOUT="3000")
        procs.append(subprocess.Popen([b, "check", prop, "--cases", cases, "--scale", "100", "--seed", str(11 + i), "--shard", str(i),
                                       "--nshards", "8", "--tier", "1"], stdout=subprocess.DEVNULL, stderr=subprocess.DEVNULL, env=env))
    for p in procs:
        p.wait()
    addrs = set()
    nrec = 0
    for f in glob.glob(os.path.join(d, "sites-*.bin")):
        data = open(f, "rb").read()
        for off in range(0, len(data) - 63, 64):
            nrec += 1
            for a in struct.unpack("8Q", data[off:off + 64]):
                if 0 < a < (1 << 40):
                    addrs.add(a - 1)  # return address - 1: inside the call instruction
    addrs = sorted(addrs)
    out = subprocess.run(["llvm-symbolizer-14", "--obj=" + b, "--inlines", "--output-style=GNU"], input="\n".join(hex(a) for a in addrs).encode(),
                         stdout=subprocess.PIPE).stdout.decode()
    reached = set()
    for m in re.finditer(r"(/repo/m4ri/[A-Za-z0-9_./]+):(\d+)", out):
        reached.add((os.path.normpath(m.group(1)), int(m.group(2))))
    static = []
    for f in sorted(glob.glob("/repo/m4ri/*.c") + glob.glob("/repo/m4ri/*.h")):
        for no, line in enumerate(open(f), 1):
            t = line.strip()
            if t.startswith(("*", "/*", "//", "#")) or "static inline void *m4ri_" in t or t.startswith(("void *m4ri_", "extern")):
                continue
            if ALLOC.search(t):
                static.append((f, no, t[:120]))
    miss = [s for s in static if (s[0], s[1]) not in reached]
    print("records %d, distinct addresses %d, allocating call lines in /repo/m4ri: %d, reached: %d, not reached: %d" %
          (nrec, len(addrs), len(static), len(static) - len(miss), len(miss)))
    for s in miss:
        print("  NOT REACHED %s:%d  %s" % s)
    shutil.rmtree(d, ignore_errors=True)


if __name__ == "__main__":
    main()
