#!/bin/bash
# vseed_confirm_cfg.sh <seeded/id> <configure args...> — confirmation for changes whose demonstration needs a special build
# configuration: builds a clean and a patched export of /repo HEAD with the given configure arguments in a scratch directory
# (removed afterwards), runs the demonstration against both, and runs `make check` of the DEFAULT configuration on the patched export.
set -u
S=$(readlink -f "$1"); shift; ARGS="$*"; L="$S/confirm.log"
T=$(mktemp -d /tmp/m4ri-cf.XXXXXX)
{
echo "== $(date) confirm (special configuration: $ARGS) $S"
for v in clean patched; do mkdir -p $T/$v; git -C /repo archive HEAD | tar -x -C $T/$v; done
( cd $T/patched && git init -q . && git apply "$S/patch.diff" ) || { echo "RESULT patch-does-not-apply"; rm -rf $T; exit 1; }
for v in clean patched; do ( cd $T/$v && autoreconf -i >/dev/null 2>&1 && ./configure $ARGS >/dev/null 2>&1 && make -j8 >/dev/null 2>&1 ) || { echo "RESULT $v-tree-does-not-build"; rm -rf $T; exit 1; }; done
for v in clean patched; do gcc -O1 -I$T/$v $S/demo.c $T/$v/.libs/libm4ri.a -lpng -lm -fopenmp -lpthread -o $T/demo-$v || { echo "RESULT demo-does-not-compile"; rm -rf $T; exit 1; }; done
OMP_WAIT_POLICY=passive timeout 900 $T/demo-clean > $T/out-clean 2>&1; RC_CLEAN=$?
OMP_WAIT_POLICY=passive timeout 900 $T/demo-patched > $T/out-patched 2>&1; RC_PATCHED=$?
echo "demo on clean tree: exit $RC_CLEAN; demo on patched tree: exit $RC_PATCHED"; tail -2 $T/out-patched
# default configuration suite on the patched tree
mkdir $T/pd; git -C /repo archive HEAD | tar -x -C $T/pd; ( cd $T/pd && git init -q . && git apply "$S/patch.diff" && autoreconf -i >/dev/null 2>&1 && ./configure >/dev/null 2>&1 && make -j8 >/dev/null 2>&1 && make -j8 check > $T/check.log 2>&1 )
grep -E "^# (PASS|FAIL|ERROR):" $T/check.log | tr '\n' ' '; echo
NPASS=$(grep -E "^# PASS:" $T/check.log | awk '{print $3}'); NFAIL=$(grep -E "^# FAIL:" $T/check.log | awk '{print $3}')
if [ "$RC_CLEAN" = 0 ] && [ "$RC_PATCHED" != 0 ] && [ "${NPASS:-0}" = 15 ] && [ "${NFAIL:-1}" = 0 ]; then echo "RESULT confirmed"; else echo "RESULT not-confirmed (clean=$RC_CLEAN patched=$RC_PATCHED pass=${NPASS:-?} fail=${NFAIL:-?})"; fi
rm -rf $T
} >> "$L" 2>&1
tail -1 "$L"
