"""Drivers for the properties that need more than one sharded campaign: C12 (configuration sweep),
C15 (thread-safe build under ThreadSanitizer), C16 (OpenMP build)."""
import hashlib, json, os, re, subprocess, sys, time, glob, shutil, random
from concurrent.futures import ThreadPoolExecutor

import vbuild
import vcheck as vc

SMALL = "4096:32768:65536"
MID = "32768:262144:4194304"
HOST = "32768:1310720:56623104"


def real_headers_cached(variants):
    """Headers produced by the repository's own configure (current configure.ac / m4ri_config.h.in), cached by content."""
    h = hashlib.sha256()
    for f in ["configure.ac", "m4ri/m4ri_config.h.in", "Makefile.am", "m4/ax_cache_size.m4", "m4/ax_cache_size_tune.m4",
              "m4/ax_openmp.m4", "m4/ax_ext.m4", "m4/ax_guess_path_lib.m4", "m4/ax_guess_path_header.m4"]:
        p = os.path.join(vbuild.REPO, f)
        if os.path.exists(p):
            h.update(open(p, "rb").read())
    base = h.hexdigest()[:16]
    cdir = os.path.join(vbuild.BUILD, "cfgcache")
    os.makedirs(cdir, exist_ok=True)
    out, missing = {}, {}
    for name, args in variants.items():
        key = hashlib.sha256((base + " ".join(args)).encode()).hexdigest()[:20]
        p = os.path.join(cdir, key + ".h")
        if os.path.exists(p):
            out[name] = open(p).read()
        else:
            missing[name] = (args, p)
    if missing:
        got = vbuild.real_config_headers({n: a for n, (a, _) in missing.items()})
        for n, text in got.items():
            tmp = missing[n][1] + ".tmp%d" % os.getpid()
            with open(tmp, "w") as f:
                f.write(text)
            os.replace(tmp, missing[n][1])
            out[n] = text
    return out


def setup_real_configs(variants, san_by_name):
    """variants: {cfgname: configure args}; registers the configurations and returns real headers."""
    try:
        headers = real_headers_cached(variants)
        source = "repository configure (autoreconf + configure per variant)"
    except Exception as e:  # autotools unusable: fall back to the documented mapping
        vc.log("real configure failed (%s); falling back to the substitution mapping" % str(e)[-300:])
        headers = {}
        source = "substitution mapping (configure could not be run)"
    for n, args in variants.items():
        san = san_by_name.get(n, vbuild.SAN)
        if n in headers:
            vbuild.cfg_from_header(n, headers[n], san=san)
        else:
            caches = vbuild.SMALL
            for a in args:
                if a.startswith("--with-cachesize="):
                    caches = tuple(int(x) for x in a.split("=")[1].split(":"))
            ts = "--enable-thread-safe" in args
            omp = "--enable-openmp" in args
            vbuild.CONFIGS[n] = vbuild.mkcfg(n, caches=caches, sse2=0 if "--disable-sse2" in args else 1, openmp=1 if omp else 0,
                                             mmc=0 if ts else 1, mzdcache=0 if (ts or omp) else 1, san=san)
    return headers, source


# ------------------------------------------------------------------------------------------------ C12
def c12_variants(tier, seed):
    v = {
        "r-small": ["--with-cachesize=" + SMALL],
        "r-small-nosse": ["--with-cachesize=" + SMALL, "--disable-sse2"],
        "r-mid": ["--with-cachesize=" + MID],
        "r-host-nosse": ["--with-cachesize=" + HOST, "--disable-sse2"],
        "r-small-ts": ["--with-cachesize=" + SMALL, "--enable-thread-safe"],
        "r-small-omp": ["--with-cachesize=" + SMALL, "--enable-openmp"],
        "r-mid-ts-nosse": ["--with-cachesize=" + MID, "--enable-thread-safe", "--disable-sse2"],
    }
    if tier == "thorough":
        v["r-host"] = ["--with-cachesize=" + HOST]
        v["r-mid-omp-nosse"] = ["--with-cachesize=" + MID, "--enable-openmp", "--disable-sse2"]
        rnd = random.Random(seed * 7919 + 13)
        for i in range(14):
            l1 = rnd.choice([4096, 8192, 16384, 32768, 49152, 65536])
            l2 = max(l1, rnd.choice([32768, 65536, 262144, 524288, 1048576, 2097152]))
            l3 = max(l2, 65536, rnd.choice([65536, 131072, 1048576, 4194304, 16777216, 67108864]))
            args = ["--with-cachesize=%d:%d:%d" % (l1, l2, l3)]
            if rnd.random() < 0.4:
                args.append("--disable-sse2")
            if rnd.random() < 0.3:
                args.append("--enable-thread-safe")
            v["r-rand%d" % i] = args
    return v


K_KEYS = re.compile(r" (k|cutoff)=(-?\d+)")


def param_variants(line, rnd):
    """two further admissible values of the tuning parameter of the case"""
    m = K_KEYS.search(line)
    if not m:
        return []
    key, val = m.group(1), int(m.group(2))
    out = []
    if key == "k":
        # the admissible range differs per routine: n tables of k bits are read as one word
        if "trtri_upper_russian" in line:
            hi = 16      # 4 tables
        elif "ple_russian" in line or "pluq_russian" in line:
            hi = 9       # 7 tables
        elif "russian" in line:
            hi = 8       # TRSM: 8 tables
        elif "m4rm" in line:
            hi = 16      # clamped to [2, 8] by the routine
        else:
            hi = 10      # elimination: 6 tables
        cands = [x for x in range(0, hi + 1) if x != val]
    else:
        cands = [x for x in [0, 1, 64, 100, 128, 192, 256, 320, 512, 1024, 4096] if x != val]
    for x in rnd.sample(cands, 2):
        out.append(line[:m.start()] + " %s=%d" % (key, x) + line[m.end():])
    return out


def run_exec(binary, lines, rundir, tag, env_extra=None, parts=3):
    """execute case lines with `vf exec`, split into parts run in parallel; returns {index: (ok, digest, labels, msg)} + crashes"""
    os.makedirs(rundir, exist_ok=True)
    chunks = [lines[i::parts] for i in range(parts)]
    idxs = [list(range(len(lines)))[i::parts] for i in range(parts)]
    res, crashes = {}, []

    def one(pi):
        if not chunks[pi]:
            return pi, None, ""
        f = os.path.join(rundir, "%s-%d.cases" % (tag, pi))
        with open(f, "w") as fh:
            fh.write("\n".join(chunks[pi]) + "\n")
        env = vc.san_env(os.path.join(rundir, "san-%s-%d" % (tag, pi)), False, env_extra)
        env["VF_JOURNAL"] = os.path.join(rundir, "journal-%s-%d.txt" % (tag, pi))
        env["VF_TMP"] = rundir
        r = subprocess.run([binary, "exec", f], stdout=subprocess.PIPE, stderr=subprocess.PIPE, env=env)
        return pi, r, env["VF_JOURNAL"]

    with ThreadPoolExecutor(parts) as pool:
        for pi, r, jr in pool.map(one, range(parts)):
            if r is None:
                continue
            for ln in r.stdout.decode(errors="replace").splitlines():
                m = re.match(r"(\d+) (\d) ([0-9a-f]{16}) (\S+) :: ?(.*)", ln)
                if m:
                    k = int(m.group(1))
                    res[idxs[pi][k]] = (m.group(2) == "1", m.group(3), m.group(4), m.group(5))
            if r.returncode != 0:
                case = open(jr).read().strip() if os.path.exists(jr) else ""
                crashes.append((case, "rc=%d %s" % (r.returncode, r.stderr.decode(errors="replace")[-400:].replace("\n", " | "))))
    return res, crashes


def check_C12(prop, tier, seed):
    t0 = time.time()
    variants = c12_variants(tier, seed)
    headers, source = setup_real_configs(variants, {})
    cfgs = list(variants)
    binaries = vbuild.build(cfgs, headers)
    reg = vc.regression_tier(prop, binaries, cfgs[0])
    rundir = os.path.join(vc.RUN, "C12-%s" % tier)
    shutil.rmtree(rundir, ignore_errors=True)
    os.makedirs(rundir)
    ncases = 8000 if tier == "quick" else 30000
    scale = 800 if tier == "quick" else 1200
    g = subprocess.run([binaries[cfgs[0]], "gen", "C12", "--cases", str(ncases), "--scale", str(scale), "--seed",
                        str(vc.seed_for(seed, prop, "gen", 0))], stdout=subprocess.PIPE, stderr=subprocess.PIPE)
    base = [l for l in g.stdout.decode().splitlines() if l.startswith("prop=C12")]
    rnd = random.Random(seed * 104729 + 7)
    lines, group = [], []
    for gi, l in enumerate(base):
        lines.append(l)
        group.append(gi)
        for v in param_variants(l, rnd):
            lines.append(v)
            group.append(gi)
    allres, failures = {}, []
    parts = max(1, vbuild.JOBS // max(1, len(cfgs) // 2))

    def runcfg(c):
        env = {"OMP_NUM_THREADS": "2"} if "omp" in c else None
        return c, run_exec(binaries[c], lines, rundir, c, env, parts=min(4, parts))

    with ThreadPoolExecutor(len(cfgs)) as pool:
        for c, (res, crashes) in pool.map(runcfg, cfgs):
            allres[c] = res
            for case, msg in crashes:
                failures.append(dict(kind="crash", cfg=c, case=case, msg="process died during the sweep: " + msg))
    evaluations = sum(len(r) for r in allres.values())
    viol_files = []
    nontriv = set()
    regime_diff = 0
    mismatches = []
    for gi in range(len(base)):
        members = [i for i in range(len(lines)) if group[i] == gi]
        digests = {}
        labels = set()
        complete = True
        for i in members:
            for c in cfgs:
                r = allres[c].get(i)
                if r is None:
                    complete = False
                    continue
                ok, dg, lab, msg = r
                labels.add(lab)
                if not ok:
                    mismatches.append((i, c, "differs from the reference model: " + msg))
                digests.setdefault(dg, []).append((i, c))
        if len(digests) > 1:
            ref = max(digests.values(), key=len)
            for dg, who in digests.items():
                if who is not ref:
                    i, c = who[0]
                    mismatches.append((i, c, "digest %s differs from the digest of %s (e.g. case variant %d under %s)" % (dg, "the majority", ref[0][0], ref[0][1])))
        if len(labels) > 1:
            regime_diff += 1
        if complete and (len(labels) > 1 or len(members) > 1):
            nontriv.add(hashlib.sha256(base[gi].encode()).hexdigest()[:16])
    seen = set()
    for i, c, why in mismatches:
        if (lines[i], c) in seen:
            continue
        seen.add((lines[i], c))
        # confirm: re-execute this single case under the configuration
        st_hits = 0
        for _ in range(2):
            r, _cr = run_exec(binaries[c], [lines[i]], rundir, "confirm-%s" % c, {"OMP_NUM_THREADS": "2"} if "omp" in c else None, parts=1)
            rr = r.get(0)
            if rr is None or not rr[0] or "digest" in why:
                st_hits += 1
        if st_hits:
            p = vc.save_found(prop, lines[i], why, c)
            viol_files.append(p)
            vc.log("C12 violation under %s: %s\n  %s" % (c, why, lines[i]))
        if len(viol_files) >= 5:
            break
    merged = dict(evaluations=evaluations, subcases=0, enumerated=0, labels={"regime-differs-between-configs": regime_diff,
                  "case-groups": len(base), "executions-per-config": len(lines)}, nontrivial=nontriv,
                  samples=lines[:12], failures=failures, san_reports=0, san_kinds={}, per_cfg={c: len(allres[c]) for c in cfgs},
                  binaries=binaries)
    n, kinds = vc.count_reports(os.path.join(rundir, "san-"))
    merged["san_reports"], merged["san_kinds"] = n, kinds
    reg["violations"].extend((p, "") for p in viol_files)
    rule = subprocess.run([binaries[cfgs[0]], "rule", prop], stdout=subprocess.PIPE).stdout.decode().strip()
    extra = dict(configurations={c: " ".join(variants[c]) for c in cfgs}, configuration_header_source=source,
                 parameter_variants_per_case=2)
    return vc.finish(prop, tier, seed, "exploration", merged, reg, rule, t0, extra_cov=extra,
                     assumptions=vc.ASSUMPTIONS["default"] + ["the configuration headers come from the repository's own configure run on a scratch copy of the tracked files; compile flags other than the header (sanitizers, -O1) are the harness's"])


# ------------------------------------------------------------------------------------------------ C15
def c15_regime_corpus(prop, tier, seed, binaries, env, merged):
    """Rare regimes under concurrency: harvest, per regime label of the semantic properties, the first generated case that
    showed it, and run each such case in three threads at once (lockstep) in the ThreadSanitizer build."""
    rundir = os.path.join(vc.RUN, "C15-%s-corpus" % tier)
    shutil.rmtree(rundir, ignore_errors=True)
    os.makedirs(rundir)
    src = binaries["r-ts-asan"]
    props = ["C01", "C02", "C03", "C04", "C05", "C06", "C07", "C08", "C13"]
    jobs = [(p, sh) for p in props for sh in range(2 if tier == "quick" else 5)]

    def harvest(j):
        p, sh = j
        out = os.path.join(rundir, "h-%s-%d.json" % (p, sh))
        e = vc.san_env(os.path.join(rundir, "san-h-%s-%d" % (p, sh)), False, None)
        e["VF_TMP"] = rundir
        try:
            subprocess.run([src, "check", p, "--cases", "1200", "--scale", "700", "--tier", "0", "--seed",
                            str(vc.seed_for(seed, prop, "harvest-" + p, sh)), "--out", out], stdout=subprocess.DEVNULL,
                           stderr=subprocess.DEVNULL, env=e, timeout=900)
            return json.load(open(out))["samples"]
        except Exception:
            return []

    with ThreadPoolExecutor(min(len(jobs), vbuild.JOBS)) as pool:
        got = list(pool.map(harvest, jobs))
    recipes, seen = [], set()
    for smp in got:
        for r in smp:
            if r in seen or "enum" in r or " step=" in r or "basis" in r:
                continue
            seen.add(r)
            recipes.append(r)
    recipes = recipes[:240 if tier == "quick" else 900]
    lines = []
    for r in recipes:
        toks = [t for t in r.split(" ") if t and not t.startswith("prop=")]
        lines.append("prop=C15 op=threads T=3 steps=1 lockstep=1 " + " ".join("t%ds0/%s" % (t, tok) for t in range(3) for tok in toks))
    res, crashes = run_exec(binaries["r-ts-tsan"], lines, rundir, "lock", env_extra=env, parts=12)
    for i, (ok, dg, lab, msg) in res.items():
        if not ok:
            merged["failures"].append(dict(kind="oracle", cfg="r-ts-tsan", case=lines[i], msg="[regime corpus in lockstep] " + msg))
    for case, msg in crashes:
        if case:
            merged["failures"].append(dict(kind="crash", cfg="r-ts-tsan", case=case, msg="[regime corpus in lockstep] " + msg))
    merged["evaluations"] += len(res)
    merged["labels"]["lockstep-regime-corpus-cases"] = len(res)
    return dict(harvested=len(recipes), executed=len(res), crashes=len(crashes))


def check_C15(prop, tier, seed):
    t0 = time.time()
    variants = C15_VARIANTS
    headers, source = setup_real_configs(variants, {"r-ts-tsan": vbuild.TSAN, "r-ts-nosse-tsan": vbuild.TSAN})
    cfgs = list(variants)
    binaries = vbuild.build(cfgs, headers)
    env = {"TSAN_OPTIONS": "halt_on_error=1:second_deadlock_stack=1:exitcode=66:report_signal_unsafe=0"}
    reg = vc.regression_tier(prop, binaries, cfgs[0], extra_env=env)
    plan = dict(cfgs=cfgs, shards=15, cases=1500 if tier == "quick" else 6000, scale=220, maxsize=100)
    merged = vc.generic_check(prop, tier, seed, plan, binaries, extra_env=env)
    rule = subprocess.run([binaries[cfgs[0]], "rule", prop], stdout=subprocess.PIPE).stdout.decode().strip()
    corpus = c15_regime_corpus(prop, tier, seed, binaries, env, merged)
    rule += (" | regime corpus in lockstep: the semantic generators of C01-C08 and C13 are run briefly in the (fast) ASan build of the "
             "thread-safe configuration, the first case that showed each regime label is kept, and every kept case is executed by 3 "
             "threads at once (same case, private operands) under ThreadSanitizer with the same oracle")
    return vc.finish(prop, tier, seed, "exploration", merged, reg, rule, t0,
                     extra_cov=dict(configurations={c: " ".join(variants[c]) for c in cfgs}, configuration_header_source=source,
                                    lockstep_regime_corpus=corpus,
                                    race_detector="ThreadSanitizer (library, shim instrumented; a report terminates the process)"),
                     extra_env=env, confirm_runs=5, confirm_need=1,
                     assumptions=["only thread-private operands; m4ri_init runs before any thread is created; the harness (uninstrumented) "
                                  "synchronises only through pthread primitives that ThreadSanitizer intercepts",
                                  "ThreadSanitizer judges the executions that happened: a race on a path no generated program takes is not seen",
                                  "the configuration header comes from the repository's own configure --enable-thread-safe"])


# ------------------------------------------------------------------------------------------------ C16
def check_C16(prop, tier, seed):
    t0 = time.time()
    variants = C16_VARIANTS
    headers, source = setup_real_configs(variants, {"r-omp-tsan": vbuild.TSAN})
    binaries = vbuild.build(list(variants), headers)
    ompcfgs = ["r-omp", "r-omp-nosse", "r-omp-mid"]
    reg = vc.regression_tier(prop, binaries, "r-omp", extra_env={"OMP_NUM_THREADS": "4"})
    plan = dict(cfgs=ompcfgs, shards=15, cases=100 if tier == "quick" else 800, scale=700 if tier == "quick" else 1400, maxsize=100,
                env_by_shard=[{"OMP_MAX_ACTIVE_LEVELS": "1"}, {"OMP_MAX_ACTIVE_LEVELS": "2"}])
    merged = vc.generic_check(prop, tier, seed, plan, binaries, extra_env={"OMP_NUM_THREADS": "4"})
    # cross-build: the same case list in the sequential build gives the same digests
    rundir = os.path.join(vc.RUN, "C16-%s-x" % tier)
    shutil.rmtree(rundir, ignore_errors=True)
    os.makedirs(rundir)
    n = 160 if tier == "quick" else 1000
    g = subprocess.run([binaries["r-omp"], "gen", "C16", "--cases", str(n), "--scale", "700", "--seed",
                        str(vc.seed_for(seed, prop, "x", 0))], stdout=subprocess.PIPE, stderr=subprocess.PIPE)
    lines = [l for l in g.stdout.decode().splitlines() if l.startswith("prop=C16")]
    with ThreadPoolExecutor(2) as pool:
        fo = pool.submit(run_exec, binaries["r-omp"], lines, rundir, "omp", {"OMP_NUM_THREADS": "3"}, 8)
        fs = pool.submit(run_exec, binaries["r-seq"], lines, rundir, "seq", None, 8)
        (ro, co), (rs, cs) = fo.result(), fs.result()
    xviol = []
    for i, l in enumerate(lines):
        a, b = ro.get(i), rs.get(i)
        if a is None or b is None:
            continue
        if a[0] and b[0] and a[1] != b[1]:
            xviol.append((l, "digest of the OpenMP build (%s) differs from the sequential build (%s)" % (a[1], b[1])))
        elif not a[0] and b[0]:
            xviol.append((l, "OpenMP build wrong where the sequential build is right: " + a[3]))
    for case, msg in co:
        merged["failures"].append(dict(kind="crash", cfg="r-omp", case=case, msg=msg))
    for l, why in xviol[:3]:
        merged["failures"].append(dict(kind="oracle", cfg="r-omp", case=l, msg=why))
    merged["evaluations"] += len(ro) + len(rs)
    merged["labels"]["cross-build-compared"] = len([i for i in ro if i in rs])
    # Archer / ThreadSanitizer slice
    tsan_env = {"OMP_NUM_THREADS": "4", "OMP_TOOL_LIBRARIES": "/usr/lib/llvm-14/lib/libarcher.so",
                "TSAN_OPTIONS": "ignore_noninstrumented_modules=1:halt_on_error=1:exitcode=66", "ARCHER_OPTIONS": "verbose=0"}
    nts = 32 if tier == "quick" else 240
    tl = lines[:nts]
    rt, ct = run_exec(binaries["r-omp-tsan"], tl, rundir, "tsan", tsan_env, 5)
    for case, msg in ct:
        merged["failures"].append(dict(kind="crash", cfg="r-omp-tsan", case=case, msg="ThreadSanitizer/Archer: " + msg))
    merged["evaluations"] += len(rt)
    merged["labels"]["archer-tsan-executions"] = len(rt)
    merged["binaries"] = binaries
    rule = subprocess.run([binaries["r-omp"], "rule", prop], stdout=subprocess.PIPE).stdout.decode().strip()
    return vc.finish(prop, tier, seed, "exploration", merged, reg, rule, t0,
                     extra_cov=dict(configurations={c: " ".join(variants[c]) for c in variants}, configuration_header_source=source),
                     extra_env={"OMP_NUM_THREADS": "4"}, confirm_runs=5, confirm_need=1,
                     assumptions=["thread counts are set with omp_set_num_threads per execution; interleavings are sampled, not enumerated",
                                  "every execution is compared with the reference model, so equality with the sequential build follows; it is "
                                  "additionally measured on a shared case list", "the configuration header comes from the repository's own configure --enable-openmp"])


# ------------------------------------------------------------------------------------------------ C18
def py_png(w, h, depth=1, ctype=0, rows=None):
    import zlib, struct

    def chunk(t, d):
        return struct.pack(">I", len(d)) + t + d + struct.pack(">I", zlib.crc32(t + d) & 0xffffffff)
    rowbytes = (w * depth * {0: 1, 2: 3, 3: 1, 4: 2, 6: 4}[ctype] + 7) // 8
    raw = b"".join(b"\0" + bytes((i * 37 + j * 11 + w) & 0xff for j in range(rowbytes)) for i in range(h))
    out = b"\x89PNG\r\n\x1a\n" + chunk(b"IHDR", struct.pack(">IIBBBBB", w, h, depth, ctype, 0, 0, 0))
    if ctype == 3:
        out += chunk(b"PLTE", bytes(range(6)))
    return out + chunk(b"IDAT", zlib.compress(raw)) + chunk(b"IEND", b"")


def fuzz_campaign(prop, tier, seed, rundir, seconds, workers):
    """libFuzzer campaign on mzd_from_png / mzd_from_jcf (two corpora: empty and grammar seeds).
    Returns (stats dict, list of confirmed crash artifacts)."""
    fz = vbuild.build_fuzzer("fz_io", "small-fuzz")
    stats = dict(execs=0, abort=0, null=0, matrix=0, checked_against_reference=0, campaigns=[])
    confirmed = []
    for cname in ("empty", "grammar"):
        cdir = os.path.join(rundir, "corpus-" + cname)
        adir = os.path.join(rundir, "artifacts-" + cname)
        os.makedirs(cdir, exist_ok=True)
        os.makedirs(adir, exist_ok=True)
        if cname == "grammar":
            k = 0
            for (w, h, d, ct) in [(70, 5, 1, 0), (8, 2, 1, 0), (64, 3, 1, 0), (33, 2, 8, 0), (10, 2, 2, 3), (9, 2, 8, 2), (5, 5, 16, 0)]:
                open(os.path.join(cdir, "p%d" % k), "wb").write(b"\x01" + py_png(w, h, d, ct))
                k += 1
            open(os.path.join(cdir, "j0"), "wb").write(b"\x00" + b"3 2 2\n3\n\n-2\n-1\n-2\n")
            open(os.path.join(cdir, "j1"), "wb").write(b"\x00" + b"2 70 2\n4\n\n-1\n70\n-64\n65\n")
        env = dict(os.environ)
        env["ASAN_OPTIONS"] = "detect_leaks=0:allocator_may_return_null=1"
        env["UBSAN_OPTIONS"] = "print_stacktrace=1"
        env["VF_TMP"] = rundir
        procs = []
        for wk in range(workers):
            e = dict(env)
            e["VF_FZ_STATS"] = os.path.join(rundir, "fzstats-%s-%d.json" % (cname, wk))
            cmd = [fz, "-max_total_time=%d" % seconds, "-max_len=4096", "-timeout=20", "-rss_limit_mb=3000",
                   "-artifact_prefix=" + adir + "/", "-seed=%d" % (vc.seed_for(seed, prop, cname, wk)), "-print_final_stats=1", cdir]
            procs.append(subprocess.Popen(cmd, stdout=subprocess.DEVNULL, stderr=open(os.path.join(rundir, "fz-%s-%d.log" % (cname, wk)), "w"), env=e))
        for pr in procs:
            pr.wait()
        for wk in range(workers):
            f = os.path.join(rundir, "fzstats-%s-%d.json" % (cname, wk))
            if os.path.exists(f):
                try:
                    d = json.load(open(f))
                    for k2 in ("execs", "abort", "null", "matrix", "checked_against_reference"):
                        stats[k2] += d.get(k2, 0)
                except Exception:
                    pass
        arts = [a for a in sorted(glob.glob(os.path.join(adir, "crash-*")) + glob.glob(os.path.join(adir, "leak-*")))]
        stats["campaigns"].append(dict(corpus=cname, workers=workers, seconds=seconds, artifacts=len(arts),
                                       corpus_files=len(os.listdir(cdir))))
        for a in arts[:6]:
            hits = 0
            for _ in range(3):
                r = subprocess.run([fz, a], stdout=subprocess.PIPE, stderr=subprocess.PIPE, env=env)
                if r.returncode != 0:
                    hits += 1
            if hits >= 2:
                os.makedirs(vc.FOUND, exist_ok=True)
                dst = os.path.join(vc.FOUND, "C18-fuzz-" + os.path.basename(a)[-16:] + ".bin")
                shutil.copy(a, dst)
                confirmed.append(dst)
    return stats, confirmed


def check_C18(prop, tier, seed):
    t0 = time.time()
    plan = vc.PLANS[prop][tier]
    binaries = vbuild.build(plan["cfgs"])
    reg = vc.regression_tier(prop, binaries, plan["cfgs"][0], strict=True)
    # saved fuzzer inputs of earlier findings are part of the regression tier
    merged = vc.generic_check(prop, tier, seed, plan, binaries, strict=True)
    rundir = os.path.join(vc.RUN, "C18-%s-fuzz" % tier)
    shutil.rmtree(rundir, ignore_errors=True)
    os.makedirs(rundir)
    stats, confirmed = fuzz_campaign(prop, tier, seed, rundir, 20 if tier == "quick" else 600, 4 if tier == "quick" else 8)
    merged["evaluations"] += stats["execs"]
    merged["labels"]["fuzz:executions"] = stats["execs"]
    merged["labels"]["fuzz:fate-abort"] = stats["abort"]
    merged["labels"]["fuzz:fate-NULL"] = stats["null"]
    merged["labels"]["fuzz:fate-matrix"] = stats["matrix"]
    merged["labels"]["fuzz:matrix-compared-with-reference-decoder"] = stats["checked_against_reference"]
    reg["violations"].extend((p, "libFuzzer artifact reproduces") for p in confirmed)
    rule = subprocess.run([binaries[plan["cfgs"][0]], "rule", prop], stdout=subprocess.PIPE).stdout.decode().strip()
    rule += " | libFuzzer slice (coverage-guided, byte level, first byte selects PNG/JCF; abort() interposed so that allowed aborts " \
            "unwind to the fuzz loop; oracle inside the target: no sanitizer report, non-negative dimensions, zero padding, equality " \
            "with the reference decoder for valid 1-bit grayscale files); only crash-/leak- artifacts that reproduce 2 of 3 times count"
    return vc.finish(prop, tier, seed, "exploration", merged, reg, rule, t0, extra_cov=dict(fuzz_campaigns=stats["campaigns"]), strict=True,
                     assumptions=["libpng internals are not judged; abort() through libpng's default error path or m4ri_die is an accepted rejection",
                                  "generated headers keep image dimensions <= 20000 (fuzzer: <= 4096) so that 'file asks for a huge matrix' stays cheap",
                                  "the libFuzzer slice is pinned only approximately by -seed; a saved artifact is the reproducible unit"])


C15_VARIANTS = {"r-ts-tsan": ["--with-cachesize=" + SMALL, "--enable-thread-safe"],
                "r-ts-asan": ["--with-cachesize=" + SMALL, "--enable-thread-safe"],
                "r-ts-nosse-tsan": ["--with-cachesize=" + SMALL, "--enable-thread-safe", "--disable-sse2"]}
C16_VARIANTS = {"r-omp": ["--with-cachesize=" + SMALL, "--enable-openmp"],
                "r-omp-nosse": ["--with-cachesize=" + SMALL, "--enable-openmp", "--disable-sse2"],
                "r-omp-mid": ["--with-cachesize=" + MID, "--enable-openmp"],
                "r-seq": ["--with-cachesize=" + SMALL],
                "r-omp-tsan": ["--with-cachesize=" + SMALL, "--enable-openmp"]}


def ensure_cfg(name):
    """register a dynamic (real-configure) configuration by name; returns (headers, extra env for running it)"""
    allv = dict(c12_variants("thorough", int(os.environ.get("VERIF_SEED", "1") or 1)))
    allv.update(C15_VARIANTS)
    allv.update(C16_VARIANTS)
    if name not in allv:
        raise RuntimeError("unknown configuration " + name)
    san = {name: vbuild.TSAN} if "tsan" in name else {}
    headers, _ = setup_real_configs({name: allv[name]}, san)
    env = {}
    if "omp" in name:
        env["OMP_NUM_THREADS"] = "4"
    if "tsan" in name:
        env["TSAN_OPTIONS"] = "halt_on_error=1:exitcode=66:ignore_noninstrumented_modules=1"
        if "omp" in name:
            env["OMP_TOOL_LIBRARIES"] = "/usr/lib/llvm-14/lib/libarcher.so"
    return headers, env


SPECIAL = {"C12": check_C12, "C15": check_C15, "C16": check_C16, "C18": check_C18}
