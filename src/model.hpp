// Reference model: dense GF(2) matrices with deliberately naive algorithms written from the
// mathematical definitions.  Shares no code and no layout tricks with m4ri.
#pragma once
#include <cstdint>
#include <cstring>
#include <string>
#include <vector>
#include <algorithm>
#include <cassert>

namespace model {

typedef uint64_t u64;

static inline u64 splitmix64(u64 &s) {
  u64 z = (s += 0x9E3779B97F4A7C15ull);
  z = (z ^ (z >> 30)) * 0xBF58476D1CE4E5B9ull;
  z = (z ^ (z >> 27)) * 0x94D049BB133111EBull;
  return z ^ (z >> 31);
}

struct Mat {
  int m = 0, n = 0, W = 0;  // W words per row
  std::vector<u64> w;
  Mat() {}
  Mat(int m_, int n_) : m(m_), n(n_), W((n_ + 63) / 64), w((size_t)m_ * ((n_ + 63) / 64), 0) {}
  inline int get(int i, int j) const { return (w[(size_t)i * W + (j >> 6)] >> (j & 63)) & 1; }
  inline void set(int i, int j, int v) {
    u64 &x = w[(size_t)i * W + (j >> 6)];
    x = (x & ~(1ull << (j & 63))) | ((u64)(v & 1) << (j & 63));
  }
  inline void flip(int i, int j) { w[(size_t)i * W + (j >> 6)] ^= 1ull << (j & 63); }
  inline u64 *row(int i) { return w.data() + (size_t)i * W; }
  inline const u64 *row(int i) const { return w.data() + (size_t)i * W; }
  u64 lastmask() const { return (n % 64) ? (~0ull >> (64 - n % 64)) : ~0ull; }
  void mask() {
    if (!W) return;
    u64 mk = lastmask();
    for (int i = 0; i < m; i++) w[(size_t)i * W + W - 1] &= mk;
  }
  bool operator==(const Mat &o) const { return m == o.m && n == o.n && w == o.w; }
  bool operator!=(const Mat &o) const { return !(*this == o); }
  bool is_zero() const {
    for (u64 x : w)
      if (x) return false;
    return true;
  }
  void xor_row(int dst, int src) {
    u64 *d = row(dst);
    const u64 *s = row(src);
    for (int j = 0; j < W; j++) d[j] ^= s[j];
  }
  void swap_rows(int a, int b) {
    if (a == b) return;
    u64 *x = row(a), *y = row(b);
    for (int j = 0; j < W; j++) std::swap(x[j], y[j]);
  }
  void swap_cols(int a, int b) {
    if (a == b) return;
    for (int i = 0; i < m; i++) {
      int x = get(i, a), y = get(i, b);
      set(i, a, y);
      set(i, b, x);
    }
  }
  u64 hash() const {
    u64 h = 0xcbf29ce484222325ull ^ ((u64)m << 32) ^ (u64)n;
    for (u64 x : w) {
      h ^= x;
      h *= 0x100000001b3ull;
      h ^= h >> 29;
    }
    return h;
  }
  long popcount() const {
    long c = 0;
    for (u64 x : w) c += __builtin_popcountll(x);
    return c;
  }
  std::string str() const {
    std::string s;
    for (int i = 0; i < m; i++) {
      for (int j = 0; j < n; j++) s += get(i, j) ? '1' : '0';
      s += '\n';
    }
    return s;
  }
};

static inline Mat identity(int n) {
  Mat I(n, n);
  for (int i = 0; i < n; i++) I.set(i, i, 1);
  return I;
}

static inline Mat add(const Mat &A, const Mat &B) {
  assert(A.m == B.m && A.n == B.n);
  Mat C = A;
  for (size_t i = 0; i < C.w.size(); i++) C.w[i] ^= B.w[i];
  return C;
}

// schoolbook product: for each set bit A[i][k]: C[i] ^= B[k]
static inline Mat mul(const Mat &A, const Mat &B) {
  assert(A.n == B.m);
  Mat C(A.m, B.n);
  for (int i = 0; i < A.m; i++) {
    u64 *c = C.row(i);
    const u64 *a = A.row(i);
    for (int kw = 0; kw < A.W; kw++) {
      u64 x = a[kw];
      while (x) {
        int b = __builtin_ctzll(x);
        x &= x - 1;
        const u64 *br = B.row(kw * 64 + b);
        for (int j = 0; j < B.W; j++) c[j] ^= br[j];
      }
    }
  }
  return C;
}

static inline Mat transpose(const Mat &A) {
  Mat T(A.n, A.m);
  for (int i = 0; i < A.m; i++)
    for (int j = 0; j < A.n; j++)
      if (A.get(i, j)) T.set(j, i, 1);
  return T;
}

static inline Mat submatrix(const Mat &A, int lowr, int lowc, int highr, int highc) {
  Mat S(highr - lowr, highc - lowc);
  for (int i = lowr; i < highr; i++)
    for (int j = lowc; j < highc; j++)
      if (A.get(i, j)) S.set(i - lowr, j - lowc, 1);
  return S;
}

static inline Mat concat(const Mat &A, const Mat &B) {
  assert(A.m == B.m);
  Mat C(A.m, A.n + B.n);
  for (int i = 0; i < A.m; i++) {
    for (int j = 0; j < A.n; j++)
      if (A.get(i, j)) C.set(i, j, 1);
    for (int j = 0; j < B.n; j++)
      if (B.get(i, j)) C.set(i, A.n + j, 1);
  }
  return C;
}

static inline Mat stack(const Mat &A, const Mat &B) {
  assert(A.n == B.n);
  Mat C(A.m + B.m, A.n);
  for (int i = 0; i < A.m; i++) memcpy(C.row(i), A.row(i), sizeof(u64) * A.W);
  for (int i = 0; i < B.m; i++) memcpy(C.row(A.m + i), B.row(i), sizeof(u64) * A.W);
  return C;
}

// Gauss-Jordan with first-row pivoting.  Leaves the unique RREF in A; returns rank; pivots = pivot columns.
static inline int rref(Mat &A, std::vector<int> *pivots = nullptr) {
  int r = 0;
  if (pivots) pivots->clear();
  for (int c = 0; c < A.n && r < A.m; c++) {
    int p = -1;
    for (int i = r; i < A.m; i++)
      if (A.get(i, c)) {
        p = i;
        break;
      }
    if (p < 0) continue;
    A.swap_rows(r, p);
    for (int i = 0; i < A.m; i++)
      if (i != r && A.get(i, c)) A.xor_row(i, r);
    if (pivots) pivots->push_back(c);
    r++;
  }
  return r;
}

static inline int rank(const Mat &A) {
  Mat B = A;
  return rref(B);
}

// is the matrix in row echelon form with exactly the given pivot columns (strictly increasing leading
// columns, zero rows last)?
static inline bool is_ref_with_pivots(const Mat &A, const std::vector<int> &piv) {
  int r = (int)piv.size();
  for (int i = 0; i < A.m; i++) {
    int lead = -1;
    for (int j = 0; j < A.n; j++)
      if (A.get(i, j)) {
        lead = j;
        break;
      }
    if (i < r) {
      if (lead != piv[i]) return false;
    } else if (lead != -1)
      return false;
  }
  return true;
}

// LAPACK-style swap sequences
static inline void rowswaps_asc(Mat &A, const std::vector<int> &P) {
  for (int i = 0; i < (int)P.size(); i++) A.swap_rows(i, P[i]);
}
static inline void rowswaps_desc(Mat &A, const std::vector<int> &P) {
  for (int i = (int)P.size() - 1; i >= 0; i--) A.swap_rows(i, P[i]);
}
static inline void colswaps_asc(Mat &A, const std::vector<int> &P) {
  for (int i = 0; i < (int)P.size(); i++) A.swap_cols(i, P[i]);
}
static inline void colswaps_desc(Mat &A, const std::vector<int> &P) {
  for (int i = (int)P.size() - 1; i >= 0; i--) A.swap_cols(i, P[i]);
}

// unit lower / upper triangular part (named triangle incl. explicit unit diagonal)
static inline Mat tri_lower_unit(const Mat &A) {
  Mat L(A.m, A.n);
  for (int i = 0; i < A.m; i++)
    for (int j = 0; j < A.n && j <= i; j++) L.set(i, j, j == i ? 1 : A.get(i, j));
  return L;
}
static inline Mat tri_upper_unit(const Mat &A) {
  Mat U(A.m, A.n);
  for (int i = 0; i < A.m; i++)
    for (int j = i; j < A.n; j++) U.set(i, j, j == i ? 1 : A.get(i, j));
  return U;
}

// is B solvable: rank([A|B]) == rank(A)
static inline bool solvable(const Mat &A, const Mat &B) { return rank(concat(A, B)) == rank(A); }

// ---- pattern expansion (fixed splitmix64 stream from a generated seed) ----
static inline void fill_dense(Mat &A, u64 seed) {
  u64 s = seed ^ 0xD1B54A32D192ED03ull;
  for (auto &x : A.w) x = splitmix64(s);
  A.mask();
}
// density 1/2^p
static inline void fill_sparse(Mat &A, u64 seed, int p) {
  u64 s = seed ^ 0xA0761D6478BD642Full;
  for (auto &x : A.w) {
    u64 v = ~0ull;
    for (int t = 0; t < p; t++) v &= splitmix64(s);
    x = v;
  }
  A.mask();
}

}  // namespace model
