// campaign statistics shared by the rapidcheck driver (vf_main.cpp) and the libFuzzer target (fz_ops.cpp)
#pragma once
#include "harness.hpp"
#include <fstream>
#include <map>
#include <set>

static std::string jesc(const std::string &s) {
  std::string o;
  for (char ch : s) {
    if (ch == '"' || ch == '\\') {
      o += '\\';
      o += ch;
    } else if (ch == '\n')
      o += "\\n";
    else if ((unsigned char)ch < 0x20)
      o += ' ';
    else
      o += ch;
  }
  return o;
}

struct Stats {
  long evaluations = 0, subcases = 0, enumerated = 0;
  std::map<std::string, long> labels;
  std::set<uint64_t> nontrivial;
  std::vector<std::string> samples;
  std::set<std::string> sampled_labels;
  std::string fail_case, fail_msg;
  long failures = 0;
  int n_enum_samples = 0, n_rand_samples = 0;
  void record(const Case &c, const Verdict &v) {
    evaluations++;
    subcases += v.subcases;
    bool newlabel = false;
    for (auto &l : v.labels) {
      labels[l]++;
      if (sampled_labels.size() < 60 && sampled_labels.insert(l).second) newlabel = true;
    }
    if (v.nontrivial) nontrivial.insert(c.hash());
    bool en = c.has("step") || c.s("op", "").find("enum") != std::string::npos || c.s("op", "").find("basis") != std::string::npos;
    if (en) {
      if (n_enum_samples < 2) {
        n_enum_samples++;
        samples.push_back(c.str());
      }
    } else if (n_rand_samples < 4 || (newlabel && samples.size() < 40)) {
      n_rand_samples++;
      samples.push_back(c.str());
    }
  }
};

static void write_stats(const std::string &path, const Stats &st, const std::string &prop, double wall, bool rc_ok) {
  if (path.empty()) return;
  std::ofstream o(path + ".tmp");
  o << "{\n \"prop\": \"" << prop << "\",\n \"evaluations\": " << st.evaluations << ",\n \"subcases\": " << st.subcases
    << ",\n \"enumerated\": " << st.enumerated << ",\n \"wall_s\": " << wall << ",\n \"failures\": " << st.failures
    << ",\n \"fail_case\": \"" << jesc(st.fail_case) << "\",\n \"fail_msg\": \"" << jesc(st.fail_msg) << "\",\n \"labels\": {";
  bool first = true;
  for (auto &l : st.labels) {
    o << (first ? "" : ", ") << "\"" << jesc(l.first) << "\": " << l.second;
    first = false;
  }
  o << "},\n \"nontrivial\": [";
  first = true;
  for (auto h : st.nontrivial) {
    o << (first ? "" : ",") << "\"" << std::hex << h << std::dec << "\"";
    first = false;
  }
  o << "],\n \"samples\": [";
  first = true;
  for (auto &s : st.samples) {
    o << (first ? "" : ", ") << "\"" << jesc(s) << "\"";
    first = false;
  }
  o << "]\n}\n";
  o.close();
  rename((path + ".tmp").c_str(), path.c_str());
}

