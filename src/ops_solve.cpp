// C06: linear system solving, C07: kernel
#include "gen.hpp"
using namespace model;

static void gen_solve(const GenCtx &ctx, Case &c, int viewpct) {
  c.sets("op", g::coin(3, 5) ? "mzd_solve_left" : "mzd_pluq_solve_left");
  int capv = g::cap(ctx, 20);
  int m, n;
  int order = g::rng(0, 2);
  std::vector<int> thr = {64, 128, 256};
  if (order == 0) {
    m = n = g::dim(capv, thr);
  } else {
    m = g::dim(capv, thr);
    n = g::dim(capv, thr);
    if (order == 1 && m > n) std::swap(m, n);  // m < n: padding rows
    if (order == 2 && m < n) std::swap(m, n);
  }
  int w = g::wpick<int>({{4, g::dim(std::min(capv, 300), {64, 128})}, {1, 1}, {1, g::pick<int>({63, 64, 65})}});
  if (g::coin(1, 8) && g::ple_recursive_shape(ctx, m, n)) {
    if (g::coin(1, 2)) std::swap(m, n);
    w = std::min(w, 130);
  }
  if (g::extreme_shape(ctx, m, n, 60)) {  // tall only: the padded system is max(m,n) x n in the model
    if (m < n) std::swap(m, n);
    w = std::min(w, 70);
  }
  c.set("m", m).set("n", n).set("w", w).set("cutoff", g::cutoff());
  g::rankpat(c, "A", m, n);
  g::place(c, "A", viewpct);
  std::string kind = g::wpick<std::string>({{4, "consistent"}, {3, "flip"}, {m < n ? 3 : 0, "padding"}, {2, "random"}, {1, "zero"}, {1, "periodic"}});
  if (kind == "periodic") {  // error rows repeating one 64-bit pattern in two full words: needs at least three words per row
    w = g::pick<int>({129, 130, 191, 192, 193, 200, 256, 257, 320});
    c.set("w", w);
  }
  c.sets("bkind", kind);
  c.setu("b.seed", g::seed());
  int rows = std::max(m, n);
  if (kind == "flip") c.set("fi", g::rng(0, rows - 1)).set("fj", g::rng(0, w - 1));
  if (kind == "padding") c.set("fi", g::pick<int>({m, rows - 1, g::rng(m, rows - 1)})).set("fj", g::rng(0, w - 1));
  g::place(c, "B", viewpct);
}

static Verdict exec_solve(const Case &c) {
  Ex x(c);
  std::string r = c.s("op");
  int m = (int)c.i("m"), n = (int)c.i("n"), w = (int)c.i("w"), cutoff = (int)c.i("cutoff", 0);
  int rows = std::max(m, n);
  Mat A = build_pat(c, "A", m, n);
  Mat Apad(rows, n);
  for (int i = 0; i < m; i++) memcpy(Apad.row(i), A.row(i), sizeof(u64) * A.W);
  std::string kind = c.s("bkind");
  Mat B(rows, w);
  if (kind == "consistent" || kind == "flip" || kind == "padding") {
    Mat X0(n, w);
    fill_dense(X0, c.u("b.seed"));
    B = mul(Apad, X0);
    if (kind != "consistent") B.flip((int)c.i("fi"), (int)c.i("fj"));
  } else if (kind == "periodic") {
    // B = A*X0 + E, every row of E carries one 64-bit pattern in two of the full words and nothing in the last word, so
    // that every combination of error rows is again of that form (value-structured inconsistency)
    Mat X0(n, w);
    fill_dense(X0, c.u("b.seed"));
    B = mul(Apad, X0);
    u64 s = c.u("b.seed") ^ 0x9e3779b97f4a7c15ULL;
    int nfull = B.W - 1, ne = 1 + (int)(splitmix64(s) % 3);
    for (int e = 0; e < ne; e++) {
      int i = (int)(splitmix64(s) % (u64)rows);
      if (e == 0 && m < rows && (splitmix64(s) & 1)) i = m + (int)(splitmix64(s) % (u64)(rows - m));
      u64 p = splitmix64(s) | 1;
      int a = (int)(splitmix64(s) % (u64)nfull), b = (a + 1 + (int)(splitmix64(s) % (u64)(nfull - 1))) % nfull;
      B.row(i)[a] ^= p;
      B.row(i)[b] ^= p;
    }
  } else if (kind == "random") {
    fill_dense(B, c.u("b.seed"));
  }
  bool solv = solvable(Apad, B);
  Opnd oa, ob;
  x.make(oa, "A", A);
  x.make(ob, "B", B);
  int ret;
  if (r == "mzd_solve_left") {
    ret = mzd_solve_left(oa.M, ob.M, cutoff, 1);
  } else {
    mzp_t *P = mzp_init(m), *Q = mzp_init(n);
    int rk = mzd_pluq(oa.M, P, Q, cutoff);
    oa.snapshot();  // the factorised matrix is a read-only input of the solve
    ret = mzd_pluq_solve_left(oa.M, rk, P, Q, ob.M, cutoff, 1);
    x.ro(oa, "A(factorised)");
    mzp_free(P);
    mzp_free(Q);
  }
  if (ret != 0 && ret != -1) x.v.fail(r + " returned " + std::to_string(ret));
  if ((ret == 0) != solv)
    x.v.fail(r + " returned " + std::to_string(ret) + " but the system is " + (solv ? "consistent" : "inconsistent") + " (kind " + kind + ")");
  x.v.out((u64)(ret == 0));
  if (ret == 0 && solv) {
    Mat Bout = ob.read();
    Mat X = submatrix(Bout, 0, 0, n, w);
    x.expect(mul(Apad, X), B, "A*X");
    x.v.out((u64)1);
  }
  x.wr(oa, "A");
  x.wr(ob, "B");
  int rk = rank(A);
  if (n > 64 && (long)((n + 63) / 64) * m > vf_cfg_ple_cutoff()) x.v.label("recursive-PLE-shape");
  x.v.label(m < n ? "m<n" : m == n ? "m==n" : "m>n");
  x.v.label(solv ? "consistent" : "inconsistent");
  x.v.label("bkind:" + kind);
  if (kind == "padding") x.v.label(c.i("fi") == m ? "padding-first-row" : "padding-only");
  x.v.label(rk == 0 ? "rank0" : rk < std::min(m, n) ? "rank-deficient" : "full-rank");
  x.v.nontrivial = rk < std::min(m, n) || !solv || rk < n;
  return x.v;
}
static RegisterOp r_s0({"mzd_solve_left", "C06", 10, gen_solve, exec_solve, true});
static RegisterOp r_s1({"mzd_pluq_solve_left", "C06", 0, nullptr, exec_solve, true});

static Case gen_C06(const GenCtx &ctx) { return gen_from_ops("C06", ctx, 15); }
static RegisterProp p_C06({"C06",
                           "random: (m,n) in the three orders x rank-structured A incl. zero A x right-hand side kind (consistent by "
                           "construction B = A*X0, consistent with one flipped bit, word-periodic error rows (>= 129 columns), inconsistency only in a padding row incl. the "
                           "first, random, zero) x width x cutoff x {mzd_solve_left, mzd_pluq + mzd_pluq_solve_left}; oracle = model: "
                           "solvable iff rank([A_pad|B]) == rank(A_pad), return value 0 iff solvable, and then A_pad*X == B0; "
                           "non-trivial iff A lacks full column rank or B is inconsistent; distinct by recipe hash",
                           gen_C06, exec_op, nullptr});

// ------------------------------------------------------------------ C07 kernel
static void gen_kernel(const GenCtx &ctx, Case &c, int viewpct) {
  c.sets("op", "mzd_kernel_left_pluq");
  int capv = g::cap(ctx, 20);
  std::vector<int> thr = {64, 128, 256};
  int m = g::dim(capv, thr), n = g::dim(capv, thr);
  if (g::coin(1, 6)) g::ple_recursive_shape(ctx, m, n);  // the factorisation underneath enters its block-recursive branch
  {  // tall only: the kernel is n x (n - r), so very many columns are not affordable for the oracle
    int a = m, b = n;
    if (g::extreme_shape(ctx, a, b, 60)) {
      m = std::max(a, b);
      n = std::min(a, b);
    }
  }
  c.set("m", m).set("n", n).set("cutoff", g::cutoff());
  g::rankpat(c, "A", m, n);
  g::place(c, "A", viewpct);
}
static Verdict exec_kernel(const Case &c) {
  Ex x(c);
  int m = (int)c.i("m"), n = (int)c.i("n"), cutoff = (int)c.i("cutoff", 0);
  Mat A = build_pat(c, "A", m, n);
  Mat R = A;
  std::vector<int> piv;
  int rk = rref(R, &piv);
  Opnd oa, ok;
  x.make(oa, "A", A);
  mzd_t *K = mzd_kernel_left_pluq(oa.M, cutoff);
  x.wr(oa, "A");
  x.v.out((u64)(K != nullptr));
  if (rk == n) {
    if (K) {
      x.v.fail("kernel routine returned a matrix although A has full column rank");
      ok.adopt(K);
    }
  } else if (!K) {
    x.v.fail("kernel routine returned NULL although rank " + std::to_string(rk) + " < ncols " + std::to_string(n));
  } else {
    ok.adopt(K);
    Mat KM = ok.read();
    if (KM.m != n || KM.n != n - rk)
      x.v.fail("kernel has dimensions " + std::to_string(KM.m) + "x" + std::to_string(KM.n) + " expected " + std::to_string(n) + "x" + std::to_string(n - rk));
    else {
      if (!mul(A, KM).is_zero()) x.v.fail("A*K != 0");
      if (rank(KM) != n - rk) x.v.fail("columns of K are linearly dependent");
    }
    x.wr(ok, "K");
  }
  bool gaps = false;
  for (int i = 0; i < rk; i++) gaps = gaps || piv[i] != i;
  if (n > 64 && (long)((n + 63) / 64) * m > vf_cfg_ple_cutoff()) x.v.label("recursive-PLE-shape");
  x.v.label(rk == 0 ? "rank0" : rk == n ? "full-column-rank" : "nontrivial-kernel");
  if (gaps) x.v.label("pivot-gaps");
  x.v.nontrivial = (rk > 0 && rk < n) || gaps;
  return x.v;
}
static RegisterOp r_k0({"mzd_kernel_left_pluq", "C07", 10, gen_kernel, exec_kernel, true});
static Case gen_C07(const GenCtx &ctx) { return gen_from_ops("C07", ctx, 15); }
static RegisterProp p_C07({"C07",
                           "random: rank-structured A (all ranks and rank profiles incl. zero matrix, full column rank, pivot gaps "
                           "across word boundaries) x shape x cutoff; oracle = model: NULL iff rank == ncols, else K is ncols x "
                           "(ncols-rank), A0*K == 0 and rank(K) == ncols-rank; non-trivial iff 0 < rank < ncols or pivot gaps; "
                           "distinct by recipe hash",
                           gen_C07, exec_op, nullptr});
