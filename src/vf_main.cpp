// vf: modes  check | replay | gen | list
#include "gen.hpp"
#include <chrono>
#include <cstdio>
#include <cstring>
#include <fcntl.h>
#include <fstream>
#include <iostream>
#include <map>
#include <unistd.h>

static std::string jesc(const std::string &s) {
  std::string o;
  for (char ch : s) {
    if (ch == '"' || ch == '\\') {
      o += '\\';
      o += ch;
    } else if (ch == '\n')
      o += "\\n";
    else if ((unsigned char)ch < 0x20)
      o += ' ';
    else
      o += ch;
  }
  return o;
}

struct Stats {
  long evaluations = 0, subcases = 0, enumerated = 0;
  std::map<std::string, long> labels;
  std::set<uint64_t> nontrivial;
  std::vector<std::string> samples;
  std::set<std::string> sampled_labels;
  std::string fail_case, fail_msg;
  long failures = 0;
  int n_enum_samples = 0, n_rand_samples = 0;
  void record(const Case &c, const Verdict &v) {
    evaluations++;
    subcases += v.subcases;
    bool newlabel = false;
    for (auto &l : v.labels) {
      labels[l]++;
      if (sampled_labels.size() < 60 && sampled_labels.insert(l).second) newlabel = true;
    }
    if (v.nontrivial) nontrivial.insert(c.hash());
    bool en = c.has("step") || c.s("op", "").find("enum") != std::string::npos || c.s("op", "").find("basis") != std::string::npos;
    if (en) {
      if (n_enum_samples < 2) {
        n_enum_samples++;
        samples.push_back(c.str());
      }
    } else if (n_rand_samples < 4 || (newlabel && samples.size() < 40)) {
      n_rand_samples++;
      samples.push_back(c.str());
    }
  }
};

static int journal_fd = -1;
static void journal(const Case &c) {
  if (journal_fd < 0) return;
  std::string s = c.str() + "\n";
  if (ftruncate(journal_fd, 0) != 0) return;
  if (pwrite(journal_fd, s.data(), s.size(), 0) < 0) return;
}

static const Prop *find_prop(const std::string &id) {
  for (auto &p : registry())
    if (id == p.id) return &p;
  return nullptr;
}

// per-case watchdog: a single case that runs longer than VF_CASE_TIMEOUT seconds (default 240; cases normally take
// milliseconds to a few seconds) kills the process with SIGALRM; the driver then replays the journal recipe under its own
// limit and reports it only if that single case reproducibly does not terminate
static unsigned case_timeout() {
  static int t = -1;
  if (t < 0) {
    const char *e = getenv("VF_CASE_TIMEOUT");
    t = e ? atoi(e) : 240;
  }
  return (unsigned)t;
}

static Verdict safe_exec(const Prop *p, const Case &c) {
  try {
    alarm(case_timeout());
    Verdict v = p->exec(c);
    alarm(0);
    return v;
  } catch (const std::exception &e) {
    alarm(0);
    Verdict v;
    v.fail(std::string("harness exception: ") + e.what());
    return v;
  }
}

static void write_stats(const std::string &path, const Stats &st, const std::string &prop, double wall, bool rc_ok) {
  if (path.empty()) return;
  std::ofstream o(path + ".tmp");
  o << "{\n \"prop\": \"" << prop << "\",\n \"evaluations\": " << st.evaluations << ",\n \"subcases\": " << st.subcases
    << ",\n \"enumerated\": " << st.enumerated << ",\n \"wall_s\": " << wall << ",\n \"failures\": " << st.failures
    << ",\n \"fail_case\": \"" << jesc(st.fail_case) << "\",\n \"fail_msg\": \"" << jesc(st.fail_msg) << "\",\n \"labels\": {";
  bool first = true;
  for (auto &l : st.labels) {
    o << (first ? "" : ", ") << "\"" << jesc(l.first) << "\": " << l.second;
    first = false;
  }
  o << "},\n \"nontrivial\": [";
  first = true;
  for (auto h : st.nontrivial) {
    o << (first ? "" : ",") << "\"" << std::hex << h << std::dec << "\"";
    first = false;
  }
  o << "],\n \"samples\": [";
  first = true;
  for (auto &s : st.samples) {
    o << (first ? "" : ", ") << "\"" << jesc(s) << "\"";
    first = false;
  }
  o << "]\n}\n";
  o.close();
  rename((path + ".tmp").c_str(), path.c_str());
}

int main(int argc, char **argv) {
  {
    const char *j = getenv("VF_JOURNAL");
    if (j) journal_fd = open(j, O_CREAT | O_WRONLY | O_TRUNC, 0644);
  }
  if (argc < 2) {
    fprintf(stderr, "usage: vf check|replay|gen|list ...\n");
    return 2;
  }
  std::string mode = argv[1];
  std::map<std::string, std::string> opt;
  std::vector<std::string> pos;
  for (int i = 2; i < argc; i++) {
    std::string a = argv[i];
    if (a.rfind("--", 0) == 0 && i + 1 < argc) {
      opt[a.substr(2)] = argv[i + 1];
      i++;
    } else
      pos.push_back(a);
  }
  auto geti = [&](const char *k, long d) { return opt.count(k) ? atol(opt[k].c_str()) : d; };

  if (mode == "list") {
    for (auto &p : registry()) printf("%s\n", p.id);
    return 0;
  }

  if (mode == "rule") {
    for (auto &p : registry())
      if (argc > 2 && std::string(argv[2]) == p.id) printf("%s\n", p.rule);
    return 0;
  }

  if (mode == "exec") {
    // execute every case of a file and print "<index> <ok> <digest>" (configuration-independence comparisons)
    if (pos.empty()) return 2;
    std::ifstream in(pos[0]);
    std::string line;
    long idx = 0;
    while (std::getline(in, line)) {
      if (line.empty() || line[0] == '#') continue;
      Case c = Case::parse(line);
      const Prop *p = find_prop(c.s("prop", ""));
      if (!p) continue;
      journal(c);
      Verdict v = safe_exec(p, c);
      std::string lab;
      for (auto &l : v.labels)
        if (l.find("recurs") != std::string::npos || l.find("strassen") != std::string::npos || l.find("blocksize") != std::string::npos ||
            l.find("strip") != std::string::npos || l.find("giantstep") != std::string::npos)
          lab += l + ",";
      printf("%ld %d %016llx %s :: %s\n", idx++, v.ok ? 1 : 0, (unsigned long long)v.outhash, lab.empty() ? "-" : lab.c_str(), v.ok ? "" : v.msg.c_str());
      fflush(stdout);
    }
    return 0;
  }

  if (mode == "replay") {
    if (pos.empty()) return 2;
    std::ifstream in(pos[0]);
    if (!in) {
      fprintf(stderr, "cannot open %s\n", pos[0].c_str());
      return 2;
    }
    std::string line;
    int bad = 0, n = 0;
    while (std::getline(in, line)) {
      if (line.empty() || line[0] == '#') continue;
      Case c = Case::parse(line);
      if (!c.has("prop")) continue;
      const Prop *p = find_prop(c.s("prop"));
      if (!p) {
        fprintf(stderr, "unknown property %s\n", c.s("prop").c_str());
        return 2;
      }
      Verdict v = safe_exec(p, c);
      n++;
      if (!v.ok) {
        bad++;
        printf("FAIL %s :: %s\n", c.str().c_str(), v.msg.c_str());
      } else {
        printf("PASS %s\n", c.str().c_str());
      }
      fflush(stdout);
    }
    return bad ? 1 : (n ? 0 : 2);
  }

  if (pos.empty()) return 2;
  const Prop *p = find_prop(pos[0]);
  if (!p) {
    fprintf(stderr, "unknown property %s\n", pos[0].c_str());
    return 2;
  }
  GenCtx ctx;
  ctx.tier = (int)geti("tier", 0);
  ctx.scale = (int)geti("scale", 300);
  ctx.shard = (int)geti("shard", 0);
  ctx.nshards = (int)geti("nshards", 1);
  long cases = geti("cases", 100);
  long seed = geti("seed", 1);
  long maxsize = geti("maxsize", 100);

  if (mode == "gen") {
    // print generated cases without executing them
    std::string params = "seed=" + std::to_string(seed) + " max_success=" + std::to_string(cases) + " max_size=" + std::to_string(maxsize) + " noshrink=1 verbose_progress=0";
    setenv("RC_PARAMS", params.c_str(), 1);
    if (p->enumerate)
      for (auto &c : p->enumerate(ctx)) printf("%s\n", c.str().c_str());
    if (p->gen && cases > 0)
      rc::check([&] {
        Case c = p->gen(ctx);
        printf("%s\n", c.str().c_str());
      });
    return 0;
  }

  if (mode != "check") return 2;
  if (opt.count("journal")) journal_fd = open(opt["journal"].c_str(), O_CREAT | O_WRONLY | O_TRUNC, 0644);
  Stats st;
  auto t0 = std::chrono::steady_clock::now();
  auto wall = [&] { return std::chrono::duration<double>(std::chrono::steady_clock::now() - t0).count(); };
  std::string out = opt.count("out") ? opt["out"] : "";
  bool failed = false;

  if (p->enumerate) {
    auto list = p->enumerate(ctx);
    for (size_t i = 0; i < list.size() && !failed; i++) {
      if ((long)(i % ctx.nshards) != ctx.shard) continue;
      if (!list[i].has("prop")) list[i].sets("prop", p->id);
      journal(list[i]);
      Verdict v = safe_exec(p, list[i]);
      st.record(list[i], v);
      st.enumerated++;
      if (!v.ok) {
        st.failures++;
        st.fail_case = list[i].str();
        st.fail_msg = v.msg;
        failed = true;
      }
    }
  }

  if (!failed && p->gen && cases > 0) {
    std::string params = "seed=" + std::to_string(seed) + " max_success=" + std::to_string(cases) + " max_size=" + std::to_string(maxsize) + " max_discard_ratio=100 verbose_progress=0";
    setenv("RC_PARAMS", params.c_str(), 1);
    bool shrinking = false;
    // silence rapidcheck's own report on stdout->stderr
    bool ok = rc::check([&] {
      Case c = p->gen(ctx);
      c.sets("prop", p->id);
      journal(c);
      Verdict v = safe_exec(p, c);
      if (!shrinking) st.record(c, v);
      if (!v.ok) {
        shrinking = true;
        st.failures++;
        st.fail_case = c.str();
        st.fail_msg = v.msg;
        RC_FAIL(v.msg);
      }
    });
    if (!ok) failed = true;
  }
  write_stats(out, st, p->id, wall(), !failed);
  if (failed) {
    printf("FAILCASE %s\nFAILMSG %s\n", st.fail_case.c_str(), st.fail_msg.c_str());
    return 1;
  }
  return 0;
}
