// vf: modes  check | replay | gen | list
#include "gen.hpp"
#include <chrono>
#include <cstdio>
#include <cstring>
#include <fcntl.h>
#include <fstream>
#include <iostream>
#include <map>
#include <unistd.h>

#include "stats.hpp"

static int journal_fd = -1;
static void journal(const Case &c) {
  if (journal_fd < 0) return;
  std::string s = c.str() + "\n";
  if (ftruncate(journal_fd, 0) != 0) return;
  if (pwrite(journal_fd, s.data(), s.size(), 0) < 0) return;
}

static const Prop *find_prop(const std::string &id) {
  for (auto &p : registry())
    if (id == p.id) return &p;
  return nullptr;
}

// per-case watchdog: a single case that runs longer than VF_CASE_TIMEOUT seconds (default 240; cases normally take
// milliseconds to a few seconds) kills the process with SIGALRM; the driver then replays the journal recipe under its own
// limit and reports it only if that single case reproducibly does not terminate
static unsigned case_timeout() {
  static int t = -1;
  if (t < 0) {
    const char *e = getenv("VF_CASE_TIMEOUT");
    t = e ? atoi(e) : 240;
  }
  return (unsigned)t;
}

static Verdict safe_exec(const Prop *p, const Case &c) {
  try {
    alarm(case_timeout());
    Verdict v = p->exec(c);
    alarm(0);
    return v;
  } catch (const std::exception &e) {
    alarm(0);
    Verdict v;
    v.fail(std::string("harness exception: ") + e.what());
    return v;
  }
}

int main(int argc, char **argv) {
  {
    const char *j = getenv("VF_JOURNAL");
    if (j) journal_fd = open(j, O_CREAT | O_WRONLY | O_TRUNC, 0644);
  }
  if (argc < 2) {
    fprintf(stderr, "usage: vf check|replay|gen|list ...\n");
    return 2;
  }
  std::string mode = argv[1];
  std::map<std::string, std::string> opt;
  std::vector<std::string> pos;
  for (int i = 2; i < argc; i++) {
    std::string a = argv[i];
    if (a.rfind("--", 0) == 0 && i + 1 < argc) {
      opt[a.substr(2)] = argv[i + 1];
      i++;
    } else
      pos.push_back(a);
  }
  auto geti = [&](const char *k, long d) { return opt.count(k) ? atol(opt[k].c_str()) : d; };

  if (mode == "list") {
    for (auto &p : registry()) printf("%s\n", p.id);
    return 0;
  }

  if (mode == "rule") {
    for (auto &p : registry())
      if (argc > 2 && std::string(argv[2]) == p.id) printf("%s\n", p.rule);
    return 0;
  }

  if (mode == "exec") {
    // execute every case of a file and print "<index> <ok> <digest>" (configuration-independence comparisons)
    if (pos.empty()) return 2;
    std::ifstream in(pos[0]);
    std::string line;
    long idx = 0;
    while (std::getline(in, line)) {
      if (line.empty() || line[0] == '#') continue;
      Case c = Case::parse(line);
      const Prop *p = find_prop(c.s("prop", ""));
      if (!p) continue;
      journal(c);
      Verdict v = safe_exec(p, c);
      std::string lab;
      for (auto &l : v.labels)
        if (l.find("recurs") != std::string::npos || l.find("strassen") != std::string::npos || l.find("blocksize") != std::string::npos ||
            l.find("strip") != std::string::npos || l.find("giantstep") != std::string::npos)
          lab += l + ",";
      printf("%ld %d %016llx %s :: %s\n", idx++, v.ok ? 1 : 0, (unsigned long long)v.outhash, lab.empty() ? "-" : lab.c_str(), v.ok ? "" : v.msg.c_str());
      fflush(stdout);
    }
    return 0;
  }

  if (mode == "replay") {
    if (pos.empty()) return 2;
    std::ifstream in(pos[0]);
    if (!in) {
      fprintf(stderr, "cannot open %s\n", pos[0].c_str());
      return 2;
    }
    std::string line;
    int bad = 0, n = 0;
    while (std::getline(in, line)) {
      if (line.empty() || line[0] == '#') continue;
      Case c = Case::parse(line);
      if (!c.has("prop")) continue;
      const Prop *p = find_prop(c.s("prop"));
      if (!p) {
        fprintf(stderr, "unknown property %s\n", c.s("prop").c_str());
        return 2;
      }
      Verdict v = safe_exec(p, c);
      n++;
      if (!v.ok) {
        bad++;
        printf("FAIL %s :: %s\n", c.str().c_str(), v.msg.c_str());
      } else {
        printf("PASS %s\n", c.str().c_str());
      }
      fflush(stdout);
    }
    return bad ? 1 : (n ? 0 : 2);
  }

  if (pos.empty()) return 2;
  const Prop *p = find_prop(pos[0]);
  if (!p) {
    fprintf(stderr, "unknown property %s\n", pos[0].c_str());
    return 2;
  }
  GenCtx ctx;
  ctx.tier = (int)geti("tier", 0);
  ctx.scale = (int)geti("scale", 300);
  ctx.shard = (int)geti("shard", 0);
  ctx.nshards = (int)geti("nshards", 1);
  long cases = geti("cases", 100);
  long seed = geti("seed", 1);
  long maxsize = geti("maxsize", 100);

  if (mode == "gen") {
    // print generated cases without executing them
    std::string params = "seed=" + std::to_string(seed) + " max_success=" + std::to_string(cases) + " max_size=" + std::to_string(maxsize) + " noshrink=1 verbose_progress=0";
    setenv("RC_PARAMS", params.c_str(), 1);
    if (p->enumerate)
      for (auto &c : p->enumerate(ctx)) printf("%s\n", c.str().c_str());
    if (p->gen && cases > 0)
      rc::check([&] {
        Case c = p->gen(ctx);
        printf("%s\n", c.str().c_str());
      });
    return 0;
  }

  if (mode != "check") return 2;
  if (opt.count("journal")) journal_fd = open(opt["journal"].c_str(), O_CREAT | O_WRONLY | O_TRUNC, 0644);
  Stats st;
  auto t0 = std::chrono::steady_clock::now();
  auto wall = [&] { return std::chrono::duration<double>(std::chrono::steady_clock::now() - t0).count(); };
  std::string out = opt.count("out") ? opt["out"] : "";
  bool failed = false;

  if (p->enumerate) {
    auto list = p->enumerate(ctx);
    for (size_t i = 0; i < list.size() && !failed; i++) {
      if ((long)(i % ctx.nshards) != ctx.shard) continue;
      if (!list[i].has("prop")) list[i].sets("prop", p->id);
      journal(list[i]);
      Verdict v = safe_exec(p, list[i]);
      st.record(list[i], v);
      st.enumerated++;
      if (!v.ok) {
        st.failures++;
        st.fail_case = list[i].str();
        st.fail_msg = v.msg;
        failed = true;
      }
    }
  }

  if (!failed && p->gen && cases > 0) {
    std::string params = "seed=" + std::to_string(seed) + " max_success=" + std::to_string(cases) + " max_size=" + std::to_string(maxsize) + " max_discard_ratio=100 verbose_progress=0";
    setenv("RC_PARAMS", params.c_str(), 1);
    bool shrinking = false;
    // silence rapidcheck's own report on stdout->stderr
    bool ok = rc::check([&] {
      Case c = p->gen(ctx);
      c.sets("prop", p->id);
      journal(c);
      Verdict v = safe_exec(p, c);
      if (!shrinking) st.record(c, v);
      if (!v.ok) {
        shrinking = true;
        st.failures++;
        st.fail_case = c.str();
        st.fail_msg = v.msg;
        RC_FAIL(v.msg);
      }
    });
    if (!ok) failed = true;
  }
  write_stats(out, st, p->id, wall(), !failed);
  if (failed) {
    printf("FAILCASE %s\nFAILMSG %s\n", st.fail_case.c_str(), st.fail_msg.c_str());
    return 1;
  }
  return 0;
}
