// libFuzzer target for the semantic properties (coverage-guided slice of C01-C09, C13, C17).
//
// The input bytes are not an encoding of the operands: they are the *choice string* of the property's own generator
// (src/gen.hpp reads its primitive choices from the bytes instead of from rapidcheck), so every case the fuzzer reaches
// is a case the rapidcheck generator can produce - same domain, same implicit preconditions - and the executor with its
// reference-model oracle is the same code.  Coverage feedback comes from the library objects only (the harness is not
// instrumented), so the fuzzer is rewarded for choice strings that reach new library code: threshold dimensions,
// rare k / cutoff regimes, window placements.
//
// A failing case is written as a recipe (VF_FZ_OUT/viol-*.case) before the trap.  A sanitizer report or signal leaves
// libFuzzer's crash-* artifact (libFuzzer owns the sanitizer death callback); the driver runs this binary once more on the
// artifact with VF_FZ_DECODE set, which only regenerates the case and writes its recipe (crash-*.case).  The driver replays
// the recipes with the ordinary vf binary; only a recipe that reproduces there is reported.
#include "gen.hpp"
#include "stats.hpp"
#include <ctime>
#include <unistd.h>

static const Prop *g_prop = nullptr;
static GenCtx g_ctx;
static std::string g_out, g_cur, g_stats_path;
static Stats g_st;
static long g_execs = 0, g_short = 0, g_exhausted = 0;
static bool g_in_exec = false, g_decode = false;

static void write_recipe(const char *kind, const std::string &recipe, const std::string &msg) {
  if (g_out.empty() || recipe.empty()) return;
  char name[512];
  snprintf(name, sizeof name, "%s/%s-%d-%ld.case", g_out.c_str(), kind, (int)getpid(), g_execs);
  FILE *f = fopen(name, "w");
  if (!f) return;
  std::string m = msg;
  for (auto &ch : m)
    if (ch == '\n') ch = ' ';
  fprintf(f, "# %s\n%s\n", m.c_str(), recipe.c_str());
  fclose(f);
}

static void flush_stats() {
  if (g_stats_path.empty()) return;
  g_st.labels["fuzz:inputs-too-short"] = g_short;
  g_st.labels["fuzz:choices-after-bytes-ran-out"] = g_exhausted;
  write_stats(g_stats_path, g_st, g_prop ? g_prop->id : "?", 0.0, true);
}

extern "C" int LLVMFuzzerInitialize(int *, char ***) {
  const char *p = getenv("VF_FZ_PROP");
  if (!p) {
    fprintf(stderr, "fz_ops: VF_FZ_PROP not set\n");
    _exit(2);
  }
  for (auto &q : registry())
    if (std::string(q.id) == p) g_prop = &q;
  if (!g_prop || !g_prop->gen) {
    fprintf(stderr, "fz_ops: unknown property %s\n", p);
    _exit(2);
  }
  g_ctx.tier = getenv("VF_FZ_TIER") ? atoi(getenv("VF_FZ_TIER")) : 0;
  g_ctx.scale = getenv("VF_FZ_SCALE") ? atoi(getenv("VF_FZ_SCALE")) : 200;
  if (getenv("VF_FZ_OUT")) g_out = getenv("VF_FZ_OUT");
  if (getenv("VF_FZ_STATS")) g_stats_path = getenv("VF_FZ_STATS");
  g_decode = getenv("VF_FZ_DECODE") != nullptr;
  atexit(flush_stats);
  return 0;
}

extern "C" int LLVMFuzzerTestOneInput(const uint8_t *data, size_t size) {
  if (size < 4) {
    g_short++;
    return 0;
  }
  g::ByteSrc b{data + 1, size - 1, 0, (int)(data[0] % 101), 0};
  g::bytes() = &b;
  Case c;
  try {
    c = g_prop->gen(g_ctx);
  } catch (...) {
    g::bytes() = nullptr;
    return 0;
  }
  g::bytes() = nullptr;
  g_exhausted += b.exhausted;
  c.sets("prop", g_prop->id);
  g_cur = c.str();
  g_execs++;
  if (g_decode) {  // the driver asks which recipe a saved crash artifact stands for
    write_recipe("crash", g_cur, "the fuzz build (fatal ASan+UBSan) died while executing this case: sanitizer report or signal");
    return 0;
  }
  Verdict v;
  g_in_exec = true;
  try {
    v = g_prop->exec(c);
  } catch (const std::exception &e) {
    v.fail(std::string("harness exception: ") + e.what());
  }
  g_in_exec = false;
  g_st.record(c, v);
  {
    static time_t last = time(nullptr);
    time_t now = time(nullptr);
    if (now - last >= 30) {
      last = now;
      flush_stats();
    }
  }
  if (!v.ok) {
    write_recipe("viol", g_cur, v.msg);
    fprintf(stderr, "fz_ops: %s: %s\n  case: %s\n", g_prop->id, v.msg.c_str(), g_cur.c_str());
    flush_stats();
    g_in_exec = false;
    __builtin_trap();
  }
  return 0;
}
