// C12 (case source for the configuration sweep), C15 (thread-safe build), C16 (OpenMP build)
#include "gen.hpp"
#include <atomic>
#include <thread>
using namespace model;

namespace {

static bool in_props(const Op &o, std::initializer_list<const char *> ps) {
  for (auto p : ps)
    if (std::string(o.prop) == p) return true;
  return false;
}

// ------------------------------------------------------------------ C12: cases whose canonical outputs are compared across builds
static Case gen_C12(const GenCtx &ctx) {
  std::vector<std::pair<int, const Op *>> w;
  for (auto &o : ops())
    if (o.gen && o.weight > 0 && in_props(o, {"C01", "C02", "C03", "C04", "C05", "C06", "C07"})) w.push_back({o.weight, &o});
  const Op *o = g::wpick(w);
  Case c;
  c.sets("prop", "C12");
  if (g::coin(1, 10)) {
    // row counts that are exact multiples of the cache-derived block sizes of *other* configurations
    // (sqrt(4*L3)/2 for L3 = 64K .. >= 4M: 256, 362, 512, 724, 1024, 1448, 2048) with a thin right factor: the cubic
    // kernels process whole blocks of that many rows and then a remainder
    int bs = g::pick<int>({256, 362, 512, 724, 1024, 1448, 2048});
    int m = bs * g::rng(1, bs <= 512 ? 3 : 2) + g::pick<int>({0, 0, 0, 1, -1});
    std::string r = g::pick<std::string>({"mzd_mul", "mzd_addmul", "mzd_mul_m4rm", "mzd_addmul_m4rm", "mzd_mul_naive", "mzd_addmul_naive"});
    c.sets("op", r).set("m", m).set("l", g::rng(1, 150)).set("n", g::rng(1, 53));
    if (r.find("m4rm") != std::string::npos) c.set("k", g::rng(0, 8));
    else if (r.find("naive") == std::string::npos) c.set("cutoff", g::pick<int>({0, 64, 256}));
    c.sets("A.pat", "dense").setu("A.seed", g::seed()).sets("B.pat", "dense").setu("B.seed", g::seed());
    c.sets("C.dst", "given").set("C.jkind", 2).setu("C.jseed", g::seed());
    return c;
  }
  o->gen(ctx, c, 0);
  return c;
}
RegisterProp p_C12({"C12",
                    "one seeded case list from the generators of C01-C07 (owned operands) executed under every build configuration of "
                    "the sweep, each case additionally with two other admissible values of its tuning parameter (k resp. cutoff); per "
                    "execution the digest of the canonical outputs (product, RREF, rank, inverse, TRSM solution, solvability verdict, "
                    "rank profile, boolean 'factors reconstruct A') is compared across all configurations and parameter values, and each "
                    "execution is also checked against the reference model (so a common-mode error is not masked). non-trivial iff the "
                    "regime labels of the case differ between two configurations (e.g. recursive in one, base case in another) or the "
                    "parameter variants were all executed; distinct by recipe hash",
                    gen_C12, exec_op, nullptr});

// ------------------------------------------------------------------ C15: concurrent use on thread-private matrices
static Case gen_C15(const GenCtx &ctx) {
  Case c;
  c.sets("prop", "C15").sets("op", "threads");
  int T = g::pick<int>({2, 3, 4, 8, 16});
  c.set("T", T);
  std::vector<std::pair<int, const Op *>> w;
  for (auto &o : ops())
    if (o.gen && o.weight > 0 && in_props(o, {"C01", "C02", "C03", "C04", "C05", "C06", "C07", "C08", "C13", "C17"})) w.push_back({o.weight, &o});
  GenCtx sub = ctx;
  sub.scale = std::min(ctx.scale, 220);
  int steps = g::rng(2, ctx.tier ? 12 : 6);
  c.set("steps", steps);
  // a third of the cases run in lockstep: every thread executes the SAME program (same shapes, data and parameters, on
  // operands of its own), so all threads are inside the same routine on the same path at about the same time - the situation
  // in which function-level scratch state of a rarely used path is touched by two threads at once
  bool lockstep = g::coin(1, 3);
  if (lockstep) c.set("lockstep", 1);
  for (int t = 0; t < T; t++)
    for (int s = 0; s < steps; s++) {
      if (lockstep && t > 0) {
        c.add_sub("t" + std::to_string(t) + "s" + std::to_string(s) + "/", c.sub("t0s" + std::to_string(s) + "/"));
        continue;
      }
      const Op *o = g::wpick(w);
      Case sc;
      // one step in eight at the scale of the semantic checks: the block-recursive factorisations and the Strassen splits
      // (and whatever scratch state they keep) are only entered by operands of that size
      GenCtx big = ctx;
      big.scale = std::max(std::min(ctx.scale, 700), 600);
      o->gen(g::coin(1, 8) ? big : sub, sc, 0);
      c.add_sub("t" + std::to_string(t) + "s" + std::to_string(s) + "/", sc);
    }
  return c;
}

static Verdict exec_C15(const Case &c) {
  Verdict v;
  int T = (int)c.i("T"), steps = (int)c.i("steps");
  std::vector<std::vector<Case>> prog(T);
  for (int t = 0; t < T; t++)
    for (int s = 0; s < steps; s++) prog[t].push_back(c.sub("t" + std::to_string(t) + "s" + std::to_string(s) + "/"));
  // sequential reference
  std::vector<std::vector<Verdict>> seq(T), par(T);
  for (int t = 0; t < T; t++)
    for (auto &sc : prog[t]) seq[t].push_back(exec_op(sc));
  // concurrent: all threads released together
  std::atomic<int> ready(0), active(0), maxactive(0);
  std::atomic<bool> go(false);
  std::vector<std::thread> th;
  for (int t = 0; t < T; t++) {
    par[t].resize(prog[t].size());
    th.emplace_back([&, t] {
      ready++;
      while (!go.load()) std::this_thread::yield();
      for (size_t s = 0; s < prog[t].size(); s++) {
        int a = ++active;
        int m = maxactive.load();
        while (a > m && !maxactive.compare_exchange_weak(m, a)) {
        }
        try {
          par[t][s] = exec_op(prog[t][s]);
        } catch (const std::exception &e) {
          par[t][s].fail(std::string("exception: ") + e.what());
        }
        --active;
      }
    });
  }
  while (ready.load() < T) std::this_thread::yield();
  go.store(true);
  for (auto &x : th) x.join();
  for (int t = 0; t < T && v.ok; t++)
    for (size_t s = 0; s < prog[t].size(); s++) {
      if (!seq[t][s].ok) {
        v.label("sequential-step-fails(other-property)");
        continue;
      }
      if (!par[t][s].ok)
        v.fail("thread " + std::to_string(t) + " step " + std::to_string(s) + " (" + prog[t][s].s("op") + ") is wrong when run concurrently: " + par[t][s].msg + " (correct sequentially)");
      else if (par[t][s].outhash != seq[t][s].outhash || par[t][s].rawhash != seq[t][s].rawhash)
        v.fail("thread " + std::to_string(t) + " step " + std::to_string(s) + " (" + prog[t][s].s("op") + "): result differs from the sequential execution");
      v.out(par[t][s].outhash);
    }
  v.subcases = (long)T * steps;
  v.label("threads:" + std::to_string(T));
  if (c.i("lockstep", 0)) v.label("lockstep-programs");
  v.label(maxactive.load() >= 2 ? "overlap-observed" : "no-overlap-observed");
  v.label(vf_cfg_enable_mmc() || vf_cfg_enable_mzd_cache() ? "caches-enabled-build" : "thread-safe-build");
  v.nontrivial = maxactive.load() >= 2;
  return v;
}
RegisterProp p_C15({"C15",
                    "random: T in {2,3,4,8,16} threads, each with a generated program of 2..12 catalogue calls (multiplication, "
                    "elimination, factorisation, TRSM, inversion, solve, kernel, data movement incl. creation and freeing, row/column "
                    "operations, permutations, observers) on operands "
                    "created by that thread (a third of the cases in lockstep: all threads run the same program), all released together; oracle: in the ThreadSanitizer build of the thread-safe "
                    "configuration zero race reports (a report ends the process and is the verdict), and in every build each step's "
                    "output digest equals the digest of the same program run sequentially, which is itself checked against the model. "
                    "non-trivial iff >= 2 threads were observed inside library calls at the same time; distinct by recipe hash",
                    gen_C15, exec_C15, nullptr});

// ------------------------------------------------------------------ C16: OpenMP build, results independent of the number of threads
static Case gen_C16(const GenCtx &ctx) {
  Case c;
  c.sets("prop", "C16");
  std::string r = g::wpick<std::string>({{5, "mzd_mul_mp"}, {4, "mzd_addmul_mp"}, {3, "mzd_mul"}, {2, "mzd_addmul"}, {3, "mzd_mul_m4rm"},
                                          {3, "mzd_echelonize_m4ri"}, {2, "mzd_echelonize"}});
  c.sets("op", r);
  int big = std::max(ctx.scale, 700);
  // the multi-core front end splits at multiples of 128 (2 x 64): exact multiples and every remainder pattern across the
  // three dimensions (remainder in m only, in l only, ...) get their own weight
  auto bigdim = [&]() { return g::wpick<int>({{3, g::rng(513, big)}, {1, 512 + g::rng(1, 3)}, {2, 128 * g::rng(4, std::max(4, big / 128)) + g::pick<int>({0, 0, 0, 1, 63, 64, 127})}}); };
  if (r == "mzd_echelonize_m4ri" || r == "mzd_echelonize") {
    int m = bigdim(), n = g::wpick<int>({{2, bigdim()}, {1, g::rng(1, 400)}});
    if (g::coin(1, 3)) {
      // tall: the row loops hand out static chunks of 512 rows round-robin, so a thread only gets a SECOND chunk when there are
      // more than 512 * T rows; few columns keep it cheap and put the last block into every table-count band
      m = g::rng(1025, 2700);
      // mostly few columns (cheap, every table-count band in the last block); sometimes wide, so that a parallel region
      // guarded by a work threshold (rows x remaining words) is still entered with a second chunk per thread
      n = g::wpick<int>({{3, g::rng(20, 330)}, {1, g::rng(1400, 2400)}, {2, g::rng(4000, 9000)}});
      if (n >= 4000) m = g::rng(1025, 1500);  // very wide: > 64 words remain to the right of most blocks
    }
    c.set("m", m).set("n", n).set("full", g::rng(0, 1));
    if (r == "mzd_echelonize_m4ri") c.set("k", g::rng(0, 8));
    g::rankpat(c, "A", m, n);
    c.set("topk", 0);
  } else {
    int m = bigdim(), l = g::wpick<int>({{2, bigdim()}, {1, g::rng(129, 400)}, {1, 128 * g::rng(1, 4)}}),
        n = g::wpick<int>({{2, bigdim()}, {1, g::rng(129, 400)}, {1, 128 * g::rng(1, 4)}});
    if (r == "mzd_mul_m4rm" && g::coin(1, 3)) {  // tall and thin: second static chunk per thread (see above)
      m = g::rng(1025, 2700);
      l = g::rng(16, 200);
      n = g::rng(54, 200);
    }
    c.set("m", m).set("l", l).set("n", n);
    if (r == "mzd_mul_m4rm") c.set("k", g::rng(0, 8));
    else c.set("cutoff", g::pick<int>({0, 64, 128, 192, 256, 512}));
    g::pat(c, "A", m, l);
    g::pat(c, "B", l, n);
    if (g::coin(1, 8)) c.set("share", 1);  // both factors overlapping views of one region (same first word)
    bool acc = r.find("addmul") != std::string::npos;
    if (acc || g::coin(1, 2)) {
      c.sets("C.dst", "given");
      c.set("C.jkind", 2);
      c.setu("C.jseed", g::seed());
    } else
      c.sets("C.dst", "null");
  }
  c.sets("threads", g::pick<std::string>({"1,2,3,8", "2,4,16", "1,5,7", "3,4,8", "2,16", "1,2,3,4,5,7,8,16"}));
  return c;
}
static Verdict exec_C16(const Case &c) {
  Verdict v;
  std::vector<int> th = parse_intlist(c.s("threads", "1,2,4"));
  if (!vf_cfg_have_openmp()) th = {1};
  u64 h0 = 0, raw0 = 0;
  bool first = true;
  Case base = c;
  for (int t : th) {
    vf_omp_set_threads(t);
    Verdict r = exec_op(base);
    if (first) {
      v.labels = r.labels;
      v.nontrivial = r.nontrivial;
    }
    if (!r.ok) {
      v.fail("with " + std::to_string(t) + " OpenMP threads: " + r.msg);
      break;
    }
    if (first) {
      h0 = r.outhash;
      raw0 = r.rawhash;
    } else if (r.outhash != h0 || r.rawhash != raw0) {
      v.fail("result with " + std::to_string(t) + " OpenMP threads differs from the result with " + std::to_string(th[0]));
      break;
    }
    first = false;
  }
  vf_omp_set_threads(vf_cfg_have_openmp() ? 4 : 1);
  v.outhash = h0;
  v.subcases = (long)th.size();
  v.label(vf_cfg_have_openmp() ? "openmp-build" : "sequential-build");
  bool strips = false;
  for (auto &l : v.labels)
    if (l.find("strip") == 0) strips = true;
  int rows = (int)c.i("m");
  v.nontrivial = vf_cfg_have_openmp() && rows > 512 && th.size() >= 2;
  if (strips) v.label("remainder-strip");
  return v;
}
RegisterProp p_C16({"C16",
                    "random: route (mzd_mul_mp, mzd_addmul_mp, mzd_mul, mzd_addmul, mzd_mul_m4rm, mzd_echelonize_m4ri full 0/1, "
                    "mzd_echelonize) x shapes with > 512 rows (static chunks of 512 spread over threads; a third of the elimination and M4RM "
                    "cases tall, 1025..2700 rows, so that a thread receives a second chunk) and remainder strips that are "
                    "not multiples of 128 x cutoff x destination NULL / junk, executed for each thread count of a generated list out of "
                    "{1,2,3,4,5,7,8,16} (omp_set_num_threads) with nesting levels 1 and 2 (OMP_MAX_ACTIVE_LEVELS per shard); oracle: every "
                    "execution equals the reference model, all thread counts give the same digest, and the same case list executed by "
                    "the sequential build gives the same digests; thorough tier: the OpenMP build under ThreadSanitizer + Archer must "
                    "stay silent. non-trivial iff OpenMP build, > 512 rows and >= 2 thread counts; distinct by recipe hash",
                    gen_C16, exec_C16, nullptr});

}  // namespace
