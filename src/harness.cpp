#include "harness.hpp"
#include <numeric>

using namespace model;

std::vector<Prop> &registry() {
  static std::vector<Prop> r;
  return r;
}

// ---------------------------------------------------------------- conversions
Mat read_mzd(const mzd_t *M) {
  Mat A(vf_nrows(M), vf_ncols(M));
  if (A.m && A.n) vf_read_block(M, A.w.data(), A.W);
  return A;
}
mzd_t *make_mzd(const Mat &A) {
  mzd_t *M = mzd_init(A.m, A.n);
  if (A.m && A.n) vf_write_block(M, A.w.data(), A.W);
  return M;
}
bool padding_zero(const mzd_t *M) { return vf_padding_or(M) == 0; }
std::vector<int> read_mzp(mzp_t *P) {
  int len = vf_mzp_length(P);
  rci_t *v = vf_mzp_values(P);
  return std::vector<int>(v, v + len);
}

// ---------------------------------------------------------------- patterns
static std::vector<int> choose_subset(int n, int r, u64 &s) {
  // random r-subset of [0,n), sorted (selection sampling)
  std::vector<int> out;
  int need = r;
  for (int j = 0; j < n && need > 0; j++) {
    u64 x = splitmix64(s) % (u64)(n - j);
    if ((int)x < need) {
      out.push_back(j);
      need--;
    }
  }
  return out;
}

static Mat build_lowrank(const Case &c, const std::string &p, int m, int n) {
  u64 s = c.u(p + ".seed", 1) ^ 0x5851F42D4C957F2Dull;
  int r = (int)c.i(p + ".r", 1);
  r = std::max(0, std::min(r, std::min(m, n)));
  std::string prof = c.s(p + ".prof", "gaps");
  std::vector<char> dead(n, 0);  // zero columns
  std::vector<int> piv;
  if (prof == "lead") {
    for (int i = 0; i < r; i++) piv.push_back(i);
  } else if (prof == "tail") {
    for (int i = 0; i < r; i++) piv.push_back(n - r + i);
  } else if (prof == "wordgap") {
    // a block of zero columns straddling a word boundary (or just somewhere if n < 64)
    int len = 1 + (int)(splitmix64(s) % 150);
    int q = n >= 64 ? 64 * (1 + (int)(splitmix64(s) % (n / 64))) : n / 2;
    int g0 = std::max(0, q - 1 - (int)(splitmix64(s) % (u64)std::min(len, 70)));
    int g1 = std::min(n, g0 + len);
    int avail = n - (g1 - g0);
    r = std::min(r, avail);
    for (int j = g0; j < g1; j++) dead[j] = 1;
    std::vector<int> sub = choose_subset(avail, r, s);
    for (int x : sub) piv.push_back(x < g0 ? x : x + (g1 - g0));
  } else if (prof == "halves") {
    // what the column-halving recursions see: a left half (split on the word boundary the library uses) whose rank is an exact
    // multiple of 64 and below its width, the remaining pivots spread over the right half
    int words = (n + 63) / 64;
    int n1 = std::min(n, ((words + 1) >> 1) * 64);
    int jmax = std::max(0, n1 / 64 - 1);
    int r1 = std::min(r, 64 * (int)(splitmix64(s) % (u64)(jmax + 1)));
    r1 -= r1 % 64;
    int avail = n - n1;
    int r2 = std::min(r - r1, avail);
    for (int i = 0; i < r1; i++) piv.push_back(i);
    for (int j = r1; j < n1; j++) dead[j] = 0;
    std::vector<int> sub = choose_subset(avail, std::max(0, r2), s);
    for (int x : sub) piv.push_back(n1 + x);
    r = (int)piv.size();
  } else if (prof == "runs") {
    // runs of consecutive pivots separated by gaps (exercises table-count bands)
    int j = (int)(splitmix64(s) % 3);
    while ((int)piv.size() < r && j < n) {
      int run = 1 + (int)(splitmix64(s) % 24);
      for (int t = 0; t < run && (int)piv.size() < r && j < n; t++) piv.push_back(j++);
      j += 1 + (int)(splitmix64(s) % 20);
    }
    r = (int)piv.size();
  } else {  // gaps
    piv = choose_subset(n, r, s);
  }
  r = (int)piv.size();
  std::vector<char> ispiv(n, 0);
  for (int x : piv) ispiv[x] = 1;
  int edens = (int)(splitmix64(s) % 3);  // 0 dense, 1 sparse, 2 very sparse
  Mat E(r, n);
  for (int i = 0; i < r; i++) {
    E.set(i, piv[i], 1);
    for (int j = piv[i] + 1; j < n; j++) {
      if (ispiv[j] || dead[j]) continue;
      u64 x = splitmix64(s);
      int bit = edens == 0 ? (x & 1) : edens == 1 ? ((x & 7) == 0) : ((x & 63) == 0);
      if (bit) E.set(i, j, 1);
    }
  }
  // Lm: m x r of rank r
  Mat Lm(m, r);
  std::vector<int> perm(m);
  std::iota(perm.begin(), perm.end(), 0);
  int rowmode = (int)(splitmix64(s) % 4);  // 0 shuffle, 1 independent rows first, 2 independent rows last, 3 shuffle
  if (rowmode == 0 || rowmode == 3) {
    for (int i = m - 1; i > 0; i--) std::swap(perm[i], perm[splitmix64(s) % (u64)(i + 1)]);
  } else if (rowmode == 2) {
    std::reverse(perm.begin(), perm.end());
  }
  int ldens = (int)(splitmix64(s) % 3);
  for (int i = 0; i < m; i++) {
    int row = perm[i];
    if (i < r) {
      Lm.set(row, i, 1);
      for (int j = 0; j < i; j++) {
        u64 x = splitmix64(s);
        if (ldens == 0 ? (x & 1) : ldens == 1 ? ((x & 7) == 0) : 0) Lm.set(row, j, 1);
      }
    } else {
      u64 kind = splitmix64(s) % 4;  // 0: zero row, 1: copy of one row, else random combination
      if (kind == 0) continue;
      if (kind == 1 && r > 0) {
        Lm.set(row, (int)(splitmix64(s) % (u64)r), 1);
        continue;
      }
      for (int j = 0; j < r; j++)
        if (splitmix64(s) & 1) Lm.set(row, j, 1);
    }
  }
  return mul(Lm, E);
}

Mat build_pat(const Case &c, const std::string &p, int m, int n) {
  Mat A(m, n);
  if (m == 0 || n == 0) return A;
  std::string pat = c.s(p + ".pat", "dense");
  u64 seed = c.u(p + ".seed", 1);
  u64 s = seed ^ 0x2545F4914F6CDD1Dull;
  if (pat == "zero") {
  } else if (pat == "ident") {
    for (int i = 0; i < std::min(m, n); i++) A.set(i, i, 1);
  } else if (pat == "single") {
    int i = (int)(splitmix64(s) % (u64)m), j = (int)(splitmix64(s) % (u64)n);
    if (c.has(p + ".i")) i = (int)std::min<long long>(m - 1, c.i(p + ".i"));
    if (c.has(p + ".j")) j = (int)std::min<long long>(n - 1, c.i(p + ".j"));
    A.set(i, j, 1);
  } else if (pat == "row") {
    int i = (int)(splitmix64(s) % (u64)m);
    for (int j = 0; j < A.W; j++) A.row(i)[j] = splitmix64(s);
    A.mask();
  } else if (pat == "col") {
    int j = (int)(splitmix64(s) % (u64)n);
    for (int i = 0; i < m; i++)
      if (splitmix64(s) & 1) A.set(i, j, 1);
  } else if (pat == "ones") {
    for (auto &x : A.w) x = ~0ull;
    A.mask();
  } else if (pat == "dense") {
    fill_dense(A, seed);
  } else if (pat == "sp3") {
    fill_sparse(A, seed, 3);
  } else if (pat == "sp6") {
    fill_sparse(A, seed, 6);
  } else if (pat == "spn") {
    // about one entry per row
    for (int i = 0; i < m; i++) {
      int k = (int)(splitmix64(s) % 3);
      for (int t = 0; t < k; t++) A.set(i, (int)(splitmix64(s) % (u64)n), 1);
    }
  } else if (pat == "stripes") {
    int period = 2 + (int)(splitmix64(s) % 130);
    int on = 1 + (int)(splitmix64(s) % (u64)(period - 1));
    int shift = (int)(splitmix64(s) % 5);
    for (int i = 0; i < m; i++)
      for (int j = 0; j < n; j++)
        if ((j + i * shift) % period < on) A.set(i, j, 1);
  } else if (pat == "dup") {
    int d = 1 + (int)(splitmix64(s) % 4);
    Mat R(d, n);
    fill_dense(R, seed);
    for (int i = 0; i < m; i++) {
      int t = (int)(splitmix64(s) % (u64)(d + 1));
      if (t < d) memcpy(A.row(i), R.row(t), sizeof(u64) * A.W);
    }
  } else if (pat == "lowrank") {
    A = build_lowrank(c, p, m, n);
  } else {
    throw std::runtime_error("unknown pattern " + pat);
  }
  return A;
}

Mat build_tri(const Case &c, const std::string &p, int n, bool lower) {
  Mat T(n, n);
  std::string pat = c.s(p + ".pat", "dense");
  u64 seed = c.u(p + ".seed", 1);
  u64 s = seed ^ 0x9FB21C651E98DF25ull;
  Mat J(n, n);
  if (c.i(p + ".junk", 1)) fill_dense(J, seed ^ 0x1234567);
  Mat D(n, n);
  if (pat == "dense")
    fill_dense(D, seed);
  else if (pat == "sparse")
    fill_sparse(D, seed, 3);
  else if (pat == "vsparse")
    fill_sparse(D, seed, 6);
  else if (pat == "single" && n > 1) {
    int i = 1 + (int)(splitmix64(s) % (u64)(n - 1));
    int j = (int)(splitmix64(s) % (u64)i);
    D.set(i, j, 1);
    D.set(j, i, 1);
  } else if (pat == "ones") {
    for (auto &x : D.w) x = ~0ull;
    D.mask();
  }
  for (int i = 0; i < n; i++)
    for (int j = 0; j < n; j++) {
      bool named = lower ? (j < i) : (j > i);
      if (i == j)
        T.set(i, j, 1);
      else if (named)
        T.set(i, j, D.get(i, j));
      else
        T.set(i, j, J.get(i, j));
    }
  return T;
}

// ---------------------------------------------------------------- operands
Place place_from(const Case &c, const std::string &p) {
  Place pl;
  pl.view = c.i(p + ".view", 0) != 0;
  if (pl.view) {
    pl.top = (int)c.i(p + ".top", 0);
    pl.bot = (int)c.i(p + ".bot", 0);
    pl.lw = (int)c.i(p + ".lw", 0);
    pl.rw = (int)c.i(p + ".rw", 0);
    pl.slack = (int)c.i(p + ".slack", 0);
    pl.fill = (int)c.i(p + ".fill", 2);
    pl.fseed = c.u(p + ".fseed", 7);
    pl.nest = c.i(p + ".nest", 0) != 0;
  }
  return pl;
}

void Opnd::release() {
  if (parent) {
    if (M) vf_free_window(M);
    if (mid) vf_free_window(mid);
    mid = nullptr;
    mzd_free(parent);
  } else if (M) {
    mzd_free(M);
  }
  M = parent = nullptr;
}

void Opnd::create(const Mat &A, const Place &p) {
  release();
  pl = p;
  m = A.m;
  n = A.n;
  if (!p.view) {
    M = make_mzd(A);
    return;
  }
  int pr = p.top + A.m + p.bot;
  int pc = 64 * p.lw + A.n + p.slack + 64 * p.rw;
  Mat J(pr, pc);
  if (p.fill == 1) {
    for (auto &x : J.w) x = ~0ull;
    J.mask();
  } else if (p.fill == 2) {
    fill_dense(J, p.fseed);
  }
  parent = make_mzd(J);
  if (p.nest) {
    // window of a window: the intermediate window takes about half of each margin, the view the rest
    int t1 = (p.top + 1) / 2, l1 = (p.lw + 1) / 2;
    int r1 = p.top + A.m + p.bot / 2;                         // end row of the intermediate window (parent coordinates)
    int c1 = 64 * p.lw + A.n + (p.slack + 64 * p.rw + 1) / 2;  // end column
    mid = mzd_init_window(parent, t1, 64 * l1, r1, c1);
    M = mzd_init_window(mid, p.top - t1, 64 * (p.lw - l1), p.top - t1 + A.m, 64 * (p.lw - l1) + A.n);
  } else
    M = mzd_init_window(parent, p.top, 64 * p.lw, p.top + A.m, 64 * p.lw + A.n);
  if (A.m && A.n) vf_write_block(M, A.w.data(), A.W);
}

void Opnd::adopt(mzd_t *owned) {
  release();
  M = owned;
  parent = nullptr;
  pl = Place();
  m = vf_nrows(M);
  n = vf_ncols(M);
}

void Opnd::snapshot() {
  mzd_t *R = root();
  snap.assign((size_t)vf_nrows(R) * vf_rowstride(R), 0);
  vf_read_raw(R, snap.data());
}

Mat Opnd::read() const { return read_mzd(M); }

bool Opnd::unchanged(std::string *why) const {
  mzd_t *R = root();
  std::vector<u64> now((size_t)vf_nrows(R) * vf_rowstride(R), 0);
  vf_read_raw(R, now.data());
  if (now.size() != snap.size()) {
    if (why) *why = "storage size changed";
    return false;
  }
  for (size_t i = 0; i < now.size(); i++)
    if (now[i] != snap[i]) {
      if (why) {
        size_t rs = vf_rowstride(R);
        *why = "word changed at row " + std::to_string(i / rs) + " word " + std::to_string(i % rs);
      }
      return false;
    }
  return true;
}

bool Opnd::outside_intact(std::string *why) const {
  if (!parent) {
    if (vf_padding_or(M) != 0) {
      if (why) *why = "non-zero padding in owned matrix";
      return false;
    }
    return true;
  }
  mzd_t *R = parent;
  size_t rs = vf_rowstride(R);
  int pr = vf_nrows(R);
  std::vector<u64> now((size_t)pr * rs, 0);
  vf_read_raw(R, now.data());
  if (now.size() != snap.size()) {
    if (why) *why = "parent storage size changed";
    return false;
  }
  int c0 = 64 * pl.lw, c1 = c0 + n;  // view columns [c0,c1)
  for (int i = 0; i < pr; i++) {
    bool inrows = i >= pl.top && i < pl.top + m;
    for (size_t wj = 0; wj < rs; wj++) {
      u64 mask = ~0ull;  // bits that must be unchanged
      if (inrows) {
        long lo = (long)wj * 64, hi = lo + 64;
        long a = std::max<long>(lo, c0), b = std::min<long>(hi, c1);
        if (a < b) {
          u64 inview = (b - a == 64) ? ~0ull : (((1ull << (b - a)) - 1) << (a - lo));
          mask = ~inview;
        }
      }
      u64 d = (now[i * rs + wj] ^ snap[i * rs + wj]) & mask;
      if (d) {
        if (why)
          *why = "parent bit outside the view changed at parent row " + std::to_string(i) + " column " +
                 std::to_string(wj * 64 + __builtin_ctzll(d)) + (wj * 64 + __builtin_ctzll(d) >= (size_t)vf_ncols(R) ? " (parent padding)" : "");
        return false;
      }
    }
  }
  return true;
}

// ---------------------------------------------------------------- Ex
void Ex::make(Opnd &o, const std::string &p, const Mat &A) {
  o.create(A, place_from(c, p));
  o.snapshot();
  if (o.is_view()) {
    anyview = true;
    v.label("view");
    if (o.pl.lw % 2) v.label("view-odd-word-offset");
    if (A.n % 64) v.label("view-excess-bits");
  }
}

void Ex::make_dst(Opnd &o, const std::string &p, int m, int n, Mat *junk) {
  if (c.s(p + ".dst", "null") == "null") {
    o.release();
    if (junk) *junk = Mat(m, n);
    return;
  }
  Mat J(m, n);
  int jk = (int)c.i(p + ".jkind", 2);
  if (jk == 2)
    model::fill_dense(J, c.u(p + ".jseed", 99));
  else if (jk == 1) {
    for (auto &x : J.w) x = ~0ull;
    J.mask();
  }
  if (junk) *junk = J;
  make(o, p, J);
  v.label("dst-given");
}

void Ex::ro(const Opnd &o, const std::string &name) {
  std::string why;
  if (!o.unchanged(&why)) v.fail("read-only operand " + name + " modified: " + why);
}
void Ex::wr(const Opnd &o, const std::string &name) {
  std::string why;
  if (!o.outside_intact(&why)) v.fail("operand " + name + ": " + why);
  if (o.M) v.raw(o.read().hash());  // everything written joins the raw digest (compared between runs of one case by C10)
}
void Ex::expect(const Mat &got, const Mat &want, const std::string &what) {
  if (got.m != want.m || got.n != want.n) {
    v.fail(what + ": dimensions " + std::to_string(got.m) + "x" + std::to_string(got.n) + " expected " +
           std::to_string(want.m) + "x" + std::to_string(want.n));
    return;
  }
  if (got.w != want.w) {
    for (int i = 0; i < got.m; i++)
      for (int j = 0; j < got.n; j++)
        if (got.get(i, j) != want.get(i, j)) {
          v.fail(what + ": entry (" + std::to_string(i) + "," + std::to_string(j) + ") is " +
                 std::to_string(got.get(i, j)) + " expected " + std::to_string(want.get(i, j)));
          return;
        }
  }
}

std::vector<Op> &ops() {
  static std::vector<Op> o;
  return o;
}
const Op *find_op(const std::string &name) {
  for (auto &o : ops())
    if (name == o.name) return &o;
  return nullptr;
}
Verdict exec_op(const Case &c) {
  const Op *o = find_op(c.s("op"));
  if (!o) throw std::runtime_error("unknown op " + c.s("op"));
  Verdict v = o->exec(c);
  v.label(std::string("op:") + o->name);
  return v;
}
