// C03: PLE / PLUQ factorisations
#include "gen.hpp"
using namespace model;

static void gen_ple(const GenCtx &ctx, Case &c, int viewpct) {
  std::string r = g::wpick<std::string>({{6, "mzd_ple"}, {6, "mzd_pluq"}, {2, "_mzd_ple"}, {2, "_mzd_pluq"}, {2, "_mzd_ple_naive"},
                                          {2, "_mzd_pluq_naive"}, {5, "_mzd_ple_russian"}, {4, "_mzd_pluq_russian"}});
  c.sets("op", r);
  int capv = g::cap(ctx, 20);
  bool naive = r.find("naive") != std::string::npos;
  bool russian = r.find("russian") != std::string::npos;
  int m, n;
  bool rec = !naive && !russian && g::coin(1, 4) && g::ple_recursive_shape(ctx, m, n);
  if (rec) {
  } else {
    std::vector<int> thr = {64, 128, 192, 256};
    m = g::dim(capv, thr);
    n = g::dim(capv, thr);
    if (naive) {
      m = std::min(m, 250);
      n = std::min(n, 250);
    }
  }
  if (!naive) g::extreme_shape(ctx, m, n);
  c.set("m", m).set("n", n);
  if (russian) c.set("k", g::rng(0, 9));  // seven tables: 7k <= 64
  else if (!naive) c.set("cutoff", g::cutoff());
  g::rankpat(c, "A", m, n);
  // trailing zero rows (first-zero-row truncation)
  if (g::coin(1, 5)) c.set("zero_below", g::rng(0, m));
  // _mzd_ple_russian / _mzd_pluq_russian are only ever handed an owned, aligned copy (_mzd_ple copies its operand first):
  // windows are outside their domain
  g::place(c, "A", russian ? 0 : viewpct);
  c.setu("pq.seed", g::seed());
  c.set("pq.kind", g::rng(0, 3));  // 0 identity, 1 values in range, 2 arbitrary small ints, 3 wild
}

static void fill_perm_junk(mzp_t *P, int kind, u64 &s) {
  int len = vf_mzp_length(P);
  rci_t *v = vf_mzp_values(P);
  for (int i = 0; i < len; i++) {
    u64 x = splitmix64(s);
    if (kind == 0) v[i] = i;
    else if (kind == 1) v[i] = (int)(x % (u64)len);
    else if (kind == 2) v[i] = (int)(x % 1000) - 500;
    else v[i] = (int)(x & 0x7fffffff) * ((x >> 40) & 1 ? 1 : -1);
  }
}

static Verdict exec_ple(const Case &c) {
  Ex x(c);
  std::string r = c.s("op");
  int m = (int)c.i("m"), n = (int)c.i("n"), k = (int)c.i("k", 0), cutoff = (int)c.i("cutoff", 0);
  bool pluq = r.find("pluq") != std::string::npos;
  Mat A = build_pat(c, "A", m, n);
  if (c.has("zero_below"))
    for (int i = (int)c.i("zero_below"); i < m; i++) memset(A.row(i), 0, sizeof(u64) * A.W);
  Mat R = A;
  std::vector<int> piv;
  int rk = rref(R, &piv);
  Opnd oa;
  x.make(oa, "A", A);
  mzp_t *P = mzp_init(m), *Q = mzp_init(n);
  u64 s = c.u("pq.seed", 3);
  fill_perm_junk(P, (int)c.i("pq.kind", 0), s);
  fill_perm_junk(Q, (int)c.i("pq.kind", 0), s);
  int got;
  if (r == "mzd_ple") got = mzd_ple(oa.M, P, Q, cutoff);
  else if (r == "mzd_pluq") got = mzd_pluq(oa.M, P, Q, cutoff);
  else if (r == "_mzd_ple") got = _mzd_ple(oa.M, P, Q, cutoff);
  else if (r == "_mzd_pluq") got = _mzd_pluq(oa.M, P, Q, cutoff);
  else if (r == "_mzd_ple_naive") got = _mzd_ple_naive(oa.M, P, Q);
  else if (r == "_mzd_pluq_naive") got = _mzd_pluq_naive(oa.M, P, Q);
  else if (r == "_mzd_ple_russian") got = _mzd_ple_russian(oa.M, P, Q, k);
  else if (r == "_mzd_pluq_russian") got = _mzd_pluq_russian(oa.M, P, Q, k);
  else throw std::runtime_error("bad ple route");
  std::vector<int> Pv = read_mzp(P), Qv = read_mzp(Q);
  mzp_free(P);
  mzp_free(Q);
  Mat S = oa.read();
  x.wr(oa, "A");
  x.v.out((u64)got);
  for (int v : Pv) x.v.raw((u64)(long long)v);
  for (int v : Qv) x.v.raw((u64)(long long)v);
  x.v.raw(S.hash());
  auto done = [&]() {
    bool gaps = false;
    for (int i = 0; i < rk; i++) gaps = gaps || piv[i] != i;
    x.v.label(rk == 0 ? "rank0" : rk < std::min(m, n) ? "rank-deficient" : "full-rank");
    if (gaps) x.v.label("pivot-gaps");
    long plecut = vf_cfg_ple_cutoff();
    bool base = r.find("naive") != std::string::npos || r.find("russian") != std::string::npos;
    int nz = 0;
    for (int i = 0; i < m; i++)
      for (int w = 0; w < A.W; w++)
        if (A.row(i)[w]) {
          nz = i + 1;
          break;
        }
    if (!base && n > 64 && (long)((n + 63) / 64) * nz > plecut) x.v.label("recursive");
    if (nz < m) x.v.label("trailing-zero-rows");
    if (c.s("A.prof", "") == "halves" && !base && n > 64 && (long)((n + 63) / 64) * nz > plecut) x.v.label("recursive:left-half-rank-multiple-of-64");
    if (c.i("pq.kind", 0)) x.v.label("junk-PQ");
    x.v.nontrivial = rk > 0 && (rk < std::min(m, n) || gaps);
    return x.v;
  };
  if (got != rk) {
    x.v.fail(r + " returned rank " + std::to_string(got) + " expected " + std::to_string(rk));
    return done();
  }
  // LAPACK ranges
  for (int i = 0; i < m; i++)
    if (Pv[i] < i || Pv[i] >= m) {
      x.v.fail("P[" + std::to_string(i) + "] = " + std::to_string(Pv[i]) + " outside [i, nrows)");
      return done();
    }
  for (int i = 0; i < n; i++)
    if (Qv[i] < i || Qv[i] >= n) {
      x.v.fail("Q[" + std::to_string(i) + "] = " + std::to_string(Qv[i]) + " outside [i, ncols)");
      return done();
    }
  // pivot columns = column rank profile
  for (int i = 0; i < rk; i++)
    if (Qv[i] != piv[i]) {
      x.v.fail("Q[" + std::to_string(i) + "] = " + std::to_string(Qv[i]) + " but the column rank profile has " + std::to_string(piv[i]));
      return done();
    }
  for (int i = 0; i < rk; i++) x.v.out((u64)Qv[i]);
  // L: m x r unit lower triangular
  Mat L(m, rk);
  for (int i = 0; i < m; i++)
    for (int j = 0; j < std::min(i, rk); j++) L.set(i, j, S.get(i, j));
  for (int i = 0; i < rk; i++) L.set(i, i, 1);
  // zero outside the L and U/E regions: rows >= r have nothing in columns >= r
  for (int i = rk; i < m; i++)
    for (int j = rk; j < n; j++)
      if (S.get(i, j)) {
        x.v.fail("storage outside L and U is not zero at (" + std::to_string(i) + "," + std::to_string(j) + ")");
        return done();
      }
  Mat PA = A;
  rowswaps_asc(PA, Pv);
  if (pluq) {
    Mat U(rk, n);
    for (int i = 0; i < rk; i++) {
      U.set(i, i, 1);
      for (int j = i + 1; j < n; j++) U.set(i, j, S.get(i, j));
    }
    Mat PAQ = PA;
    colswaps_asc(PAQ, Qv);
    if (mul(L, U) != PAQ) x.v.fail(r + ": L*U differs from A with the row swaps P and the column swaps Q applied");
  } else {
    // E: row i = stored row i with columns <= i cleared and the pivot 1 at Q[i]; stored (i, (i,Q[i]]) must be zero
    Mat E(rk, n);
    for (int i = 0; i < rk && x.v.ok; i++) {
      if (!S.get(i, i)) x.v.fail("PLE storage: no unit entry at (" + std::to_string(i) + "," + std::to_string(i) + ")");
      for (int j = i + 1; j <= Qv[i]; j++)
        if (S.get(i, j)) x.v.fail("PLE storage: non-zero entry between the diagonal and the pivot column in row " + std::to_string(i));
      for (int j = Qv[i] + 1; j < n; j++) E.set(i, j, S.get(i, j));
      E.set(i, Qv[i], 1);
    }
    if (x.v.ok) {
      if (mul(L, E) != PA) x.v.fail(r + ": L*E differs from A with the row swaps P applied");
      // E is in echelon form w.r.t. Q (leading one of row i in column Q[i], strictly increasing)
      for (int i = 0; i < rk && x.v.ok; i++)
        for (int j = 0; j < Qv[i]; j++)
          if (E.get(i, j)) x.v.fail("E is not in echelon form");
    }
    // PLE -> PLUQ by the model's own triangular column swaps gives a valid PLUQ
    if (x.v.ok) {
      Mat S2 = S;
      for (int i = 0; i < n; i++)
        for (int rr = 0; rr < std::min(i, rk); rr++) {
          int a = S2.get(rr, i), b = S2.get(rr, Qv[i]);
          S2.set(rr, i, b);
          S2.set(rr, Qv[i], a);
        }
      Mat U(rk, n);
      for (int i = 0; i < rk; i++) {
        U.set(i, i, 1);
        for (int j = i + 1; j < n; j++) U.set(i, j, S2.get(i, j));
      }
      Mat PAQ = PA;
      colswaps_asc(PAQ, Qv);
      if (mul(L, U) != PAQ) x.v.fail(r + ": PLE converted by triangular column swaps is not a valid PLUQ");
    }
  }
  x.v.out((u64)x.v.ok);
  return done();
}
static RegisterOp r_p0({"mzd_ple", "C03", 10, gen_ple, exec_ple, true});
static RegisterOp r_p1({"mzd_pluq", "C03", 0, nullptr, exec_ple, true});
static RegisterOp r_p2({"_mzd_ple", "C03", 0, nullptr, exec_ple, true});
static RegisterOp r_p3({"_mzd_pluq", "C03", 0, nullptr, exec_ple, true});
static RegisterOp r_p4({"_mzd_ple_naive", "C03", 0, nullptr, exec_ple, true});
static RegisterOp r_p5({"_mzd_pluq_naive", "C03", 0, nullptr, exec_ple, true});
static RegisterOp r_p6({"_mzd_ple_russian", "C03", 0, nullptr, exec_ple, false});
static RegisterOp r_p7({"_mzd_pluq_russian", "C03", 0, nullptr, exec_ple, false});

static Case gen_C03(const GenCtx &ctx) { return gen_from_ops("C03", ctx, 15); }
static RegisterProp p_C03({"C03",
                           "random: routine (mzd_ple, mzd_pluq, _mzd_ple/_pluq with generated cutoff, naive x2, MMPF base case with "
                           "k in 0..8 x2) x rank-structured A (incl. trailing zero rows, zero matrix, 1 x n, m x 1, shapes with "
                           "width*nrows > PLE cutoff entering the block-recursive algorithm in the small cache configuration) x P,Q "
                           "pre-filled with identity / in-range / arbitrary / wild ints; oracle = model: rank, LAPACK ranges, Q[0..r) = "
                           "column rank profile, zero outside L and U/E, P*L*U*Q resp. P*L*E reconstruction, E in echelon form, PLE->PLUQ "
                           "by model column swaps; non-trivial iff r > 0 and (rank-deficient or pivot gaps); distinct by recipe hash",
                           gen_C03, exec_op, nullptr});
