// C01: every multiplication route computes exactly A*B (or C + A*B)
#include "gen.hpp"
using namespace model;

struct Route {
  const char *name;
  bool acc;      // accumulate variant
  int param;     // 0 none, 1 k, 2 cutoff
  bool views;    // operands may be windows
};
static const Route ROUTES[] = {
    {"mzd_mul_naive", false, 0, true},   {"mzd_addmul_naive", true, 0, true}, {"_mzd_mul_naive", false, 0, false},
    {"_mzd_mul_va", false, 0, true},     {"mzd_mul_m4rm", false, 1, true},    {"mzd_addmul_m4rm", true, 1, true},
    {"_mzd_mul_m4rm", false, 1, true},   {"mzd_mul", false, 2, true},         {"mzd_addmul", true, 2, true},
    {"_mzd_mul_even", false, 2, true},   {"_mzd_addmul_even", true, 2, true}, {"_mzd_addmul", true, 2, true},
    {"mzd_mul_mp", false, 2, true},      {"mzd_addmul_mp", true, 2, true},    {"djb", false, 0, false},
};
static const Route *route(const std::string &n) {
  for (auto &r : ROUTES)
    if (n == r.name) return &r;
  throw std::runtime_error("unknown route " + n);
}

// library's effective cutoff and base-case rule (mirrors strassen.c; used for labels only)
static int eff_cutoff(int cutoff) {
  if (cutoff == 0) cutoff = vf_cfg_strassen_cutoff();
  cutoff = cutoff / 64 * 64;
  if (cutoff < 64) cutoff = 64;
  return cutoff;
}
static bool closer(int a, int cutoff) { return 3 * a < 4 * cutoff || a < 128; }

static void gen_mul(const GenCtx &ctx, Case &c, int viewpct) {
  bool omp = vf_cfg_have_openmp();
  if (ctx.tier && g::coin(1, 1500)) {
    // thorough tier only: all three dimensions above 4096 with automatic parameters - the automatic table parameter and the
    // default cutoff take their largest values only here, and only with realistic (host-sized) caches
    std::string r = g::pick<std::string>({"mzd_mul_m4rm", "mzd_addmul_m4rm", "mzd_mul", "mzd_addmul"});
    c.sets("op", r).set("m", 4096 + g::rng(0, 200)).set("l", 4096 + g::rng(0, 200)).set("n", 4097 + g::rng(0, 1400));
    c.set(r.find("m4rm") != std::string::npos ? "k" : "cutoff", 0);
    c.sets("A.pat", "dense").setu("A.seed", g::seed()).sets("B.pat", "dense").setu("B.seed", g::seed());
    if (r.find("addmul") != std::string::npos || g::coin(1, 2)) c.sets("C.dst", "given").set("C.jkind", 2).setu("C.jseed", g::seed());
    else c.sets("C.dst", "null");
    return;
  }
  std::string r = g::wpick<std::string>({{6, "mzd_mul"}, {5, "mzd_addmul"}, {5, "mzd_mul_m4rm"}, {4, "mzd_addmul_m4rm"},
                                          {2, "_mzd_mul_m4rm"}, {3, "mzd_mul_naive"}, {2, "mzd_addmul_naive"},
                                          {2, "_mzd_mul_naive"}, {2, "_mzd_mul_va"}, {2, "_mzd_mul_even"},
                                          {2, "_mzd_addmul_even"}, {2, "_mzd_addmul"}, {omp ? 6 : 0, "mzd_mul_mp"},
                                          {omp ? 5 : 0, "mzd_addmul_mp"}, {3, "djb"}});
  const Route *rt = route(r);
  c.sets("op", r);
  int capv = g::cap(ctx, 20);
  int m, l, n;
  int cutoff = 0, k = 0;
  bool strassen = rt->param == 2;
  bool square = false;
  if (strassen) {
    cutoff = g::cutoff();
    int ec = eff_cutoff(cutoff);
    int cls = g::rng(0, 9);
    if (cls < 5 && 2 * ec <= std::max(capv, 300)) {
      // dimensions around the split limits of this cutoff: 4c/3, 2c, 3c, 4c (+-) and remainder strips
      auto d = [&]() {
        int base = g::pick<int>({4 * ec / 3, 2 * ec, 3 * ec, 4 * ec, 128, 2 * ec + 64, 2 * ec + 128});
        base = std::min(base, std::max(capv, 300));
        return std::max(1, base + g::pick<int>({-1, 0, 1, 63, 64, 65, g::rng(-70, 130)}));
      };
      m = d();
      l = d();
      n = d();
    } else {
      std::vector<int> thr = {16, 54, 64, 128, vf_cfg_mul_blocksize(), 4 * ec / 3, 2 * ec};
      m = g::dim(capv, thr);
      l = g::dim(capv, thr);
      n = g::dim(capv, thr);
    }
    square = (r == "mzd_mul" || r == "mzd_addmul" || r == "_mzd_addmul") && g::coin(1, 5);
  } else if (r == "djb") {
    m = g::dim(std::min(capv, 120));
    l = g::dim(std::min(capv, 160));
    n = g::dim(std::max(capv, 200));
  } else {
    k = rt->param == 1 ? g::wpick<int>({{8, g::rng(0, 10)}, {1, g::rng(11, 16)}}) : 0;  // M4RM clamps an explicit k to [2, 8]
    int kk = k ? 8 * std::max(2, std::min(8, k)) : 64;
    std::vector<int> thr = {16, 54, 64, kk, 2 * kk, 3 * kk, vf_cfg_mul_blocksize()};
    int cls = g::rng(0, 9);
    if (cls < 2) {  // thin/fat: delegation to the cubic code and inside it _mzd_mul_va vs transposed B
      int bs = vf_cfg_mul_blocksize();  // the cubic kernels work in blocks of this many rows + a remainder
      m = g::pick<int>({g::rng(1, 15), 16, 17, g::rng(1, capv), bs * g::rng(1, 2) + g::pick<int>({0, 0, 1, -1})});
      l = g::dim(capv, thr);
      n = g::pick<int>({g::rng(1, 53), 53, 54, 55, g::rng(1, capv)});
    } else if (cls < 4 && rt->param == 1) {  // table tails: l around multiples of 8k and k
      l = std::max(1, kk * g::rng(1, std::max(1, capv / kk)) + g::pick<int>({0, 1, -1, kk / 8, kk / 8 + 1, g::rng(0, kk - 1)}));
      m = g::dim(capv, thr);
      n = g::dim(capv, thr);
    } else {
      m = g::dim(capv, thr);
      l = g::dim(capv, thr);
      n = g::dim(capv, thr);
    }
    if (r == "_mzd_mul_naive" || r == "_mzd_mul_va" || r.find("naive") != std::string::npos) {
      m = std::min(m, 400);
      l = std::min(l, 400);
      n = std::min(n, 400);
    }
  }
  if (!square && r != "djb" && r.find("naive") == std::string::npos && r != "_mzd_mul_va" && ctx.scale >= 400 && g::coin(1, 50)) {
    // one extreme dimension (result kept small): automatic k and block rules see very wide / very thin operands
    int few1 = g::rng(1, 70), few2 = g::rng(1, 70), huge = g::rng(20000, 45000);
    int which = g::rng(0, 2);
    m = which == 0 ? huge : few1;
    l = which == 1 ? huge : (which == 0 ? few2 : few1);
    n = which == 2 ? huge : few2;
  }
  if (square) l = n = m;
  if (!square && rt->views && r != "_mzd_mul_naive" && r != "djb" && g::coin(1, 25)) {
    // both factors overlapping views of one region with equal data pointers (documented constraint is only that C differs)
    m = std::min(m, 400);
    l = std::min(l, 400);
    n = std::min(n, 400);
    c.set("share", 1);
  }
  c.set("m", m).set("l", l).set("n", n);
  if (rt->param == 1) c.set("k", k);
  if (rt->param == 2) c.set("cutoff", cutoff);
  if (square) c.set("square", 1);
  bool views = rt->views;
  g::pat(c, "A", m, l);
  if (views) g::place(c, "A", viewpct);
  if (!square) {
    g::pat(c, "B", l, n);
    if (views) g::place(c, "B", viewpct);
  }
  if (r == "_mzd_mul_naive" || r == "_mzd_mul_va" || r == "_mzd_mul_m4rm") c.set("clear", g::coin(2, 3));
  bool acc = rt->acc || c.i("clear", 1) == 0;
  // mzd_addmul and mzd_addmul_mp allocate a zero C themselves when handed NULL
  bool null_ok_acc = (r == "mzd_addmul" || r == "mzd_addmul_mp") && c.i("clear", 1) != 0;
  bool must_give = (acc && !null_ok_acc) || r[0] == '_' || r == "djb";
  if (r == "djb") return;
  if (must_give || g::coin(3, 5)) {
    c.sets("C.dst", "given");
    c.set("C.jkind", g::wpick<int>({{6, 2}, {1, 1}, {2, 0}}));
    c.setu("C.jseed", g::seed());
    if (views) g::place(c, "C", viewpct);
  } else
    c.sets("C.dst", "null");
}

static Verdict exec_mul(const Case &c) {
  Ex x(c);
  std::string r = c.s("op");
  const Route *rt = route(r);
  int m = (int)c.i("m"), l = (int)c.i("l"), n = (int)c.i("n");
  bool square = c.i("square", 0);
  int k = (int)c.i("k", 0), cutoff = (int)c.i("cutoff", 0);
  bool share = c.i("share", 0) != 0;  // both factors are views of one region, starting at the same origin
  Mat R;
  if (share) R = build_pat(c, "A", std::max(m, l), std::max(l, n));
  Mat A = share ? submatrix(R, 0, 0, m, l) : build_pat(c, "A", m, l);
  Mat B = share ? submatrix(R, 0, 0, l, n) : square ? A : build_pat(c, "B", l, n);
  Mat P = mul(A, B);

  if (r == "djb") {
    // compile a copy of A, apply to a zeroed W and V = B (owned, equal widths)
    Opnd oa, ob, ow;
    x.make(oa, "A", A);
    x.make(ob, "B", B);
    ow.create_owned(Mat(m, n));
    ow.snapshot();
    djb_t *z = djb_compile(oa.M);  // destroys its argument (documented: works on A in place)
    djb_apply_mzd(z, ow.M, ob.M);
    Mat got = ow.read();
    x.expect(got, P, "djb_apply_mzd(djb_compile(A), 0, B)");
    x.v.out(got);
    x.ro(ob, "V");
    x.wr(ow, "W");
    x.wr(oa, "A(consumed)");
    if (vf_djb_nsource_target(z) >= 1) x.v.label("djb-source-target-op");
    if (vf_djb_length(z) > 64) x.v.label("djb>64ops");
    x.v.nontrivial = !P.is_zero() && vf_djb_nsource_target(z) >= 1;
    vf_djb_free(z);
    return x.v;
  }

  Opnd oa, ob, oc, fresh;
  mzd_t *wa = nullptr, *wb = nullptr;
  if (share) {
    // the region (owned, or itself a window of a junk parent) and two overlapping windows into it with equal data pointers:
    // "the leading block times its block row"
    x.make(oa, "A", R);
    wa = mzd_init_window(oa.M, 0, 0, m, l);
    wb = mzd_init_window(oa.M, 0, 0, l, n);
    x.v.label("factors-are-views-of-one-region");
  } else
    x.make(oa, "A", A);
  if (!square && !share) {
    if (r == "_mzd_mul_naive") {
      Mat BT = transpose(B);  // this entry point takes the second factor transposed
      x.make(ob, "B", BT);
    } else
      x.make(ob, "B", B);
  }
  mzd_t *pa = share ? wa : oa.M, *pb = share ? wb : square ? oa.M : ob.M;
  bool clear = c.i("clear", 1) != 0;
  bool acc = rt->acc || !clear;
  Mat Cprev;
  x.make_dst(oc, "C", m, n, &Cprev);
  Mat want = acc ? add(Cprev, P) : P;
  mzd_t *ret = nullptr;
  int unsupported = 0;
  if (r == "mzd_mul_naive") ret = mzd_mul_naive(oc.M, pa, pb);
  else if (r == "mzd_addmul_naive") ret = mzd_addmul_naive(oc.M, pa, pb);
  else if (r == "_mzd_mul_naive") ret = _mzd_mul_naive(oc.M, pa, pb, clear);
  else if (r == "_mzd_mul_va") ret = _mzd_mul_va(oc.M, pa, pb, clear);
  else if (r == "mzd_mul_m4rm") ret = mzd_mul_m4rm(oc.M, pa, pb, k);
  else if (r == "mzd_addmul_m4rm") ret = mzd_addmul_m4rm(oc.M, pa, pb, k);
  else if (r == "_mzd_mul_m4rm") ret = _mzd_mul_m4rm(oc.M, pa, pb, k, clear);
  else if (r == "mzd_mul") ret = mzd_mul(oc.M, pa, pb, cutoff);
  else if (r == "mzd_addmul") ret = mzd_addmul(oc.M, pa, pb, cutoff);
  else if (r == "_mzd_mul_even") ret = _mzd_mul_even(oc.M, pa, pb, eff_cutoff(cutoff));
  else if (r == "_mzd_addmul_even") ret = _mzd_addmul_even(oc.M, pa, pb, eff_cutoff(cutoff));
  else if (r == "_mzd_addmul") ret = _mzd_addmul(oc.M, pa, pb, eff_cutoff(cutoff));
  else if (r == "mzd_mul_mp") ret = vf_mul_mp(oc.M, pa, pb, cutoff, 0, &unsupported);
  else if (r == "mzd_addmul_mp") ret = vf_mul_mp(oc.M, pa, pb, cutoff, 1, &unsupported);
  else throw std::runtime_error("route not handled");
  if (unsupported) x.v.label("mp-front-end-absent(sequential-product-used)");
  if (oc.M && ret != oc.M) x.v.fail("returned pointer differs from supplied destination");
  if (!oc.M) fresh.adopt(ret);
  Mat got = read_mzd(ret);
  x.expect(got, want, r);
  x.v.out(got);
  x.ro(oa, share ? "shared region of A and B" : "A");
  if (!square && !share) x.ro(ob, "B");
  x.wr(oc.M ? oc : fresh, "C");
  if (wa) vf_free_window(wa);
  if (wb) vf_free_window(wb);

  // ---- labels: which regime did the case enter
  bool regime = false;
  if (rt->param == 2) {
    int ec = eff_cutoff(cutoff);
    bool base = closer(m, ec) || closer(l, ec) || closer(n, ec);
    if (!base) {
      x.v.label("strassen-recursed");
      regime = true;
      int mult = 64, width = std::min(std::min(m, n), l) / 2;
      while (width > ec) {
        width /= 2;
        mult *= 2;
      }
      if (mult > 64) x.v.label("strassen-mult-doubled");
      int mmm = (((m - m % mult) / 64) >> 1) * 64, kkk = (((l - l % mult) / 64) >> 1) * 64, nnn = (((n - n % mult) / 64) >> 1) * 64;
      if (m > 2 * mmm) x.v.label("strip-rows");
      if (l > 2 * kkk) x.v.label("strip-inner");
      if (n > 2 * nnn) x.v.label("strip-cols");
      if (!closer(mmm, ec) && !closer(kkk, ec) && !closer(nnn, ec)) x.v.label("strassen-depth>=2");
    } else
      x.v.label("strassen-base-case");
    if (square) {
      x.v.label("squaring");
      regime = true;
    }
    x.v.label("cutoff:" + std::string(cutoff == 0 ? "default" : ec == 64 ? "64" : ec == 128 ? "128" : ">=192"));
  } else if (rt->param == 1 || r.find("naive") != std::string::npos || r == "_mzd_mul_va") {
    bool delegated = (n < 54 || m < 16);
    if (rt->param == 1) {
      if (!delegated) {
        x.v.label("m4rm-tables");
        regime = true;
        int kk2 = k;
        if (kk2 == 0) kk2 = -1;
        if (kk2 > 0) {
          kk2 = std::max(2, std::min(8, kk2));
          if (l % (8 * kk2)) x.v.label("m4rm-tail-8k");
          if (l % kk2) x.v.label("m4rm-tail-k");
        }
        if (m > vf_cfg_mul_blocksize()) x.v.label("m4rm-giantstep>1");
      } else
        x.v.label("m4rm-delegated-to-cubic");
    } else {
      regime = true;
      x.v.label(n < 54 ? "cubic-transposed-B" : "cubic-va");
    }
  }
  x.v.label(acc ? "accumulate" : "overwrite");
  x.v.nontrivial = !P.is_zero() && regime;
  return x.v;
}

static RegisterOp r_m0({"mzd_mul", "C01", 10, gen_mul, exec_mul, true});
static RegisterOp r_m1({"mzd_addmul", "C01", 0, nullptr, exec_mul, true});
static RegisterOp r_m2({"mzd_mul_m4rm", "C01", 0, nullptr, exec_mul, true});
static RegisterOp r_m3({"mzd_addmul_m4rm", "C01", 0, nullptr, exec_mul, true});
static RegisterOp r_m4({"_mzd_mul_m4rm", "C01", 0, nullptr, exec_mul, true});
static RegisterOp r_m5({"mzd_mul_naive", "C01", 0, nullptr, exec_mul, true});
static RegisterOp r_m6({"mzd_addmul_naive", "C01", 0, nullptr, exec_mul, true});
static RegisterOp r_m7({"_mzd_mul_naive", "C01", 0, nullptr, exec_mul, false});
static RegisterOp r_m8({"_mzd_mul_va", "C01", 0, nullptr, exec_mul, true});
static RegisterOp r_m9({"_mzd_mul_even", "C01", 0, nullptr, exec_mul, true});
static RegisterOp r_ma({"_mzd_addmul_even", "C01", 0, nullptr, exec_mul, true});
static RegisterOp r_mb({"_mzd_addmul", "C01", 0, nullptr, exec_mul, true});
static RegisterOp r_mc({"mzd_mul_mp", "C01", 0, nullptr, exec_mul, true});
static RegisterOp r_md({"mzd_addmul_mp", "C01", 0, nullptr, exec_mul, true});
static RegisterOp r_me({"djb", "C01", 0, nullptr, exec_mul, false});

static Case gen_C01(const GenCtx &ctx) { return gen_from_ops("C01", ctx, 15); }
static RegisterProp p_C01({"C01",
                           "random: route (cubic x4, M4RM x3 with k in 0..10, Strassen x5 with generated cutoff incl. squaring by "
                           "passing the same object twice, multi-core front end in OpenMP builds, DJB compile+apply) x (m,l,n) from a "
                           "mixture aimed at word boundaries, the delegation limits 16/54, 8k and k table tails, the 256-row giant step "
                           "and the Strassen split limits 4c/3, 2c, 3c, 4c with remainder strips x patterns x destination NULL / junk / "
                           "previous value; oracle = schoolbook product in the reference model, factors bit-identical afterwards, "
                           "padding zero; non-trivial iff product non-zero and a route-specific regime was entered (tables not "
                           "delegated, >= 1 Strassen level, squaring, cubic kernels, DJB with a target-to-target op); distinct by recipe hash",
                           gen_C01, exec_op, nullptr});
