// C13: row/column operations, bit-range primitives, row combination, LAPACK-style permutations
#include "gen.hpp"
using namespace model;

static void gen_M(const GenCtx &ctx, Case &c, int viewpct, int mcap, int ncap) {
  int capv = g::cap(ctx);
  int m = g::dim(std::min(capv, mcap)), n = g::dim(std::min(std::max(capv, 130), ncap));
  g::extreme_shape(ctx, m, n);
  c.set("m", m).set("n", n);
  c.sets("M.pat", g::wpick<std::string>({{8, "dense"}, {1, "sp3"}, {1, "stripes"}, {1, "ones"}}));
  c.setu("M.seed", g::seed());
  g::place(c, "M", viewpct);
}

// two column indices: same word / different words / last partial word
static void gen_colpair(Case &c, int n) {
  int a, b;
  int cls = g::rng(0, 4);
  if (cls == 0) {
    a = g::rng(0, n - 1);
    int w = a / 64;
    b = g::rng(64 * w, std::min(n - 1, 64 * w + 63));
  } else if (cls == 1) {
    a = g::rng(std::max(0, 64 * ((n - 1) / 64)), n - 1);  // last word
    b = g::rng(0, n - 1);
  } else {
    a = g::rng(0, n - 1);
    b = g::rng(0, n - 1);
  }
  if (g::coin(1, 2)) std::swap(a, b);
  c.set("a", a).set("b", b);
}

// ------------------------------------------------------------------ row swap / col swap
static void gen_swap(const GenCtx &ctx, Case &c, int viewpct) {
  std::string op = g::pick<std::string>({"mzd_row_swap", "_mzd_row_swap", "mzd_col_swap", "mzd_col_swap_in_rows", "mzd_col_swap_in_rows"});
  c.sets("op", op);
  gen_M(ctx, c, viewpct, 150, 700);
  int m = (int)c.i("m"), n = (int)c.i("n");
  if (op == "mzd_row_swap" || op == "_mzd_row_swap") {
    c.set("a", g::rng(0, m - 1)).set("b", g::rng(0, m - 1));
    if (op == "_mzd_row_swap") c.set("startblock", g::rng(0, (n + 63) / 64));
  } else {
    gen_colpair(c, n);
    if (op == "mzd_col_swap_in_rows") {
      int cls = g::rng(0, 4);
      int s = g::rng(0, m), e;
      if (cls == 0)
        e = s;  // empty
      else if (cls == 1)
        e = std::min(m, s + g::rng(1, 3));  // unroll remainder
      else
        e = g::rng(s, m);
      c.set("start", s).set("stop", e);
    }
  }
}
static Verdict exec_swap(const Case &c) {
  Ex x(c);
  std::string op = c.s("op");
  int m = (int)c.i("m"), n = (int)c.i("n"), a = (int)c.i("a"), b = (int)c.i("b");
  Mat A = build_pat(c, "M", m, n);
  Opnd o;
  x.make(o, "M", A);
  Mat want = A;
  if (op == "mzd_row_swap") {
    vf_row_swap(o.M, a, b);
    want.swap_rows(a, b);
    x.v.nontrivial = a != b;
  } else if (op == "_mzd_row_swap") {
    int sb = (int)c.i("startblock");
    vf__row_swap(o.M, a, b, sb);
    for (int j = 64 * sb; j < n; j++) {
      want.set(a, j, A.get(b, j));
      want.set(b, j, A.get(a, j));
    }
    x.v.nontrivial = a != b && sb * 64 < n;
  } else if (op == "mzd_col_swap") {
    vf_col_swap(o.M, a, b);
    want.swap_cols(a, b);
    x.v.nontrivial = a != b;
    x.v.label(a / 64 == b / 64 ? "same-word" : "cross-word");
  } else {
    int s = (int)c.i("start"), e = (int)c.i("stop");
    vf_col_swap_in_rows(o.M, a, b, s, e);
    for (int i = s; i < e; i++) {
      want.set(i, a, A.get(i, b));
      want.set(i, b, A.get(i, a));
    }
    x.v.nontrivial = a != b && e > s;
    x.v.label(a / 64 == b / 64 ? "same-word" : "cross-word");
    x.v.label(e - s == 0 ? "rows:0" : e - s < 4 ? "rows:1-3" : "rows:>=4");
  }
  Mat got = o.read();
  x.expect(got, want, op);
  x.v.out(got);
  x.wr(o, "M");
  return x.v;
}
static RegisterOp r_sw1({"mzd_row_swap", "C13", 10, gen_swap, exec_swap, true});
static RegisterOp r_sw2({"_mzd_row_swap", "C13", 0, nullptr, exec_swap, true});
static RegisterOp r_sw3({"mzd_col_swap", "C13", 0, nullptr, exec_swap, true});
static RegisterOp r_sw4({"mzd_col_swap_in_rows", "C13", 0, nullptr, exec_swap, true});

// all pairs of bit positions (same word, adjacent word, far word, last partial word), on a fixed dense matrix
static Verdict exec_colswap_pairs(const Case &c) {
  Verdict v;
  int m = (int)c.i("m", 6), n = (int)c.i("n", 200), rows = (int)c.i("rows", m);
  Mat A(m, n);
  fill_dense(A, c.u("seed", 5));
  mzd_t *M = make_mzd(A);
  Mat got(m, n);
  long cnt = 0;
  for (int a = 0; a < n && v.ok; a++)
    for (int b = 0; b < n; b++) {
      // from word 0 to every column, and from the last word to every column
      if (!(a < 64 || a >= 64 * ((n - 1) / 64))) continue;
      vf_write_block(M, A.w.data(), A.W);
      vf_col_swap_in_rows(M, a, b, 0, rows);
      vf_read_block(M, got.w.data(), got.W);
      cnt++;
      bool good = vf_padding_or(M) == 0;
      for (int i = 0; i < m && good; i++) {
        for (int w = 0; w < A.W && good; w++) {
          u64 e = A.row(i)[w];
          if (i < rows && a != b) {
            int ba = A.get(i, a), bb = A.get(i, b);
            if (a / 64 == w) e = (e & ~(1ull << (a % 64))) | ((u64)bb << (a % 64));
            if (b / 64 == w) e = (e & ~(1ull << (b % 64))) | ((u64)ba << (b % 64));
          }
          good = got.row(i)[w] == e;
        }
      }
      if (!good) {
        v.fail("col_swap_in_rows(" + std::to_string(a) + "," + std::to_string(b) + ") rows [0," + std::to_string(rows) + ") on " + std::to_string(m) + "x" + std::to_string(n) + " wrong");
        break;
      }
    }
  mzd_free(M);
  v.subcases = cnt;
  v.nontrivial = true;
  v.label("bitpair-enum");
  return v;
}
static RegisterOp r_swp({"colswap_pairs_enum", "C13", 0, nullptr, exec_colswap_pairs, false});

// ------------------------------------------------------------------ row add / clear
static void gen_rowadd(const GenCtx &ctx, Case &c, int viewpct) {
  std::string op = g::pick<std::string>({"mzd_row_add", "mzd_row_add_offset", "mzd_row_add_offset", "mzd_row_clear_offset"});
  c.sets("op", op);
  gen_M(ctx, c, viewpct, 60, 1400);
  int m = (int)c.i("m"), n = (int)c.i("n");
  if (m == 1) {
    m = 2;
    c.set("m", 2);
  }
  // "adding one row to another": the two rows are distinct
  int src = g::rng(0, m - 1), dst = g::rng(0, m - 2);
  if (dst >= src) dst++;
  c.set("src", src).set("dst", dst);
  int off = g::wpick<int>({{2, 0}, {3, g::rng(0, n - 1)}, {2, std::min(n - 1, 64 * g::rng(0, (n - 1) / 64))},
                           {1, n - 1}, {1, std::max(0, std::min(n - 1, 64 * ((n - 1) / 64) + g::rng(-1, 1)))}});
  c.set("off", off);
}
static Verdict exec_rowadd(const Case &c) {
  Ex x(c);
  std::string op = c.s("op");
  int m = (int)c.i("m"), n = (int)c.i("n"), src = (int)c.i("src"), dst = (int)c.i("dst"), off = (int)c.i("off");
  Mat A = build_pat(c, "M", m, n);
  Opnd o;
  x.make(o, "M", A);
  Mat want = A;
  if (op == "mzd_row_add") {
    mzd_row_add(o.M, src, dst);
    for (int j = 0; j < n; j++) want.set(dst, j, A.get(dst, j) ^ A.get(src, j));
  } else if (op == "mzd_row_add_offset") {
    vf_row_add_offset(o.M, dst, src, off);
    for (int j = off; j < n; j++) want.set(dst, j, A.get(dst, j) ^ A.get(src, j));
    x.v.label(off % 64 ? "off-unaligned" : "off-aligned");
  } else {
    mzd_row_clear_offset(o.M, dst, off);
    for (int j = off; j < n; j++) want.set(dst, j, 0);
    x.v.label(off % 64 ? "off-unaligned" : "off-aligned");
    if (off >= 64) x.v.label("off>=64");
  }
  Mat got = o.read();
  x.expect(got, want, op);
  x.v.out(got);
  x.wr(o, "M");
  x.v.nontrivial = got != A;
  return x.v;
}
static RegisterOp r_ra1({"mzd_row_add", "C13", 8, gen_rowadd, exec_rowadd, true});
static RegisterOp r_ra2({"mzd_row_add_offset", "C13", 0, nullptr, exec_rowadd, true});
static RegisterOp r_ra3({"mzd_row_clear_offset", "C13", 0, nullptr, exec_rowadd, true});

// ------------------------------------------------------------------ bit-range read / xor / clear
static void gen_bits(const GenCtx &ctx, Case &c, int viewpct) {
  std::string op = g::pick<std::string>({"mzd_read_bits", "mzd_xor_bits", "mzd_clear_bits", "mzd_read_bits_int"});
  c.sets("op", op);
  gen_M(ctx, c, viewpct, 20, 400);
  int m = (int)c.i("m"), n = (int)c.i("n");
  int maxn = op == "mzd_read_bits_int" ? 31 : 64;
  int nb = g::rng(1, std::min(maxn, n));
  int y;
  int cls = g::rng(0, 3);
  if (cls == 0)
    y = n - nb;  // touches the last valid bit
  else if (cls == 1 && n > 64)
    y = std::max(0, std::min(n - nb, 64 * g::rng(1, (n - 1) / 64) - g::rng(0, nb)));  // straddles a word boundary
  else
    y = g::rng(0, n - nb);
  c.set("x", g::rng(0, m - 1)).set("y", y).set("nb", nb).setu("values", g::seed());
}
static Verdict exec_bits(const Case &c) {
  Ex x(c);
  std::string op = c.s("op");
  int m = (int)c.i("m"), n = (int)c.i("n"), r = (int)c.i("x"), y = (int)c.i("y"), nb = (int)c.i("nb");
  u64 values = c.u("values");
  if (nb < 64) values &= (1ull << nb) - 1;
  Mat A = build_pat(c, "M", m, n);
  Opnd o;
  x.make(o, "M", A);
  Mat want = A;
  int spot = y % 64;
  x.v.label(spot + nb > 64 ? "spill" : "no-spill");
  if (op == "mzd_read_bits" || op == "mzd_read_bits_int") {
    u64 got = op == "mzd_read_bits" ? vf_read_bits(o.M, r, y, nb) : (u64)(unsigned)vf_read_bits_int(o.M, r, y, nb);
    u64 w = 0;
    for (int t = 0; t < nb; t++) w |= (u64)A.get(r, y + t) << t;
    if (got != w) x.v.fail(op + " returned a wrong value");
    x.v.out(got);
    x.ro(o, "M");
    x.v.nontrivial = w != 0;
    return x.v;
  }
  if (op == "mzd_xor_bits") {
    vf_xor_bits(o.M, r, y, nb, values);
    for (int t = 0; t < nb; t++) want.set(r, y + t, A.get(r, y + t) ^ ((values >> t) & 1));
  } else {
    vf_clear_bits(o.M, r, y, nb);
    for (int t = 0; t < nb; t++) want.set(r, y + t, 0);
  }
  Mat got = o.read();
  x.expect(got, want, op);
  x.v.out(got);
  x.wr(o, "M");
  x.v.nontrivial = got != A;
  return x.v;
}
static RegisterOp r_b1({"mzd_read_bits", "C13", 8, gen_bits, exec_bits, true});
static RegisterOp r_b2({"mzd_xor_bits", "C13", 0, nullptr, exec_bits, true});
static RegisterOp r_b3({"mzd_clear_bits", "C13", 0, nullptr, exec_bits, true});
static RegisterOp r_b4({"mzd_read_bits_int", "C13", 0, nullptr, exec_bits, true});

// all (spot, n) pairs
static Verdict exec_bits_enum(const Case &c) {
  Verdict v;
  int n = 200, m = 3;
  Mat A(m, n);
  fill_dense(A, c.u("seed", 11));
  mzd_t *M = make_mzd(A);
  long cnt = 0;
  Mat got(m, n);
  for (int y = 0; y < n && v.ok; y++)
    for (int nb = 1; nb <= 64 && y + nb <= n; nb++) {
      u64 w = 0;
      for (int t = 0; t < nb; t++) w |= (u64)A.get(1, y + t) << t;
      cnt++;
      if (vf_read_bits(M, 1, y, nb) != w) {
        v.fail("mzd_read_bits(y=" + std::to_string(y) + ",n=" + std::to_string(nb) + ") wrong");
        break;
      }
      u64 val = 0x9E3779B97F4A7C15ull * (u64)(y * 65 + nb + 1);
      if (nb < 64) val &= (1ull << nb) - 1;
      vf_xor_bits(M, 1, y, nb, val);
      vf_read_block(M, got.w.data(), got.W);
      Mat want = A;
      for (int t = 0; t < nb; t++) want.set(1, y + t, A.get(1, y + t) ^ ((val >> t) & 1));
      if (got != want || vf_padding_or(M)) {
        v.fail("mzd_xor_bits(y=" + std::to_string(y) + ",n=" + std::to_string(nb) + ") wrong");
        break;
      }
      vf_clear_bits(M, 1, y, nb);
      vf_read_block(M, got.w.data(), got.W);
      for (int t = 0; t < nb; t++) want.set(1, y + t, 0);
      if (got != want || vf_padding_or(M)) {
        v.fail("mzd_clear_bits(y=" + std::to_string(y) + ",n=" + std::to_string(nb) + ") wrong");
        break;
      }
      vf_write_block(M, A.w.data(), A.W);
    }
  mzd_free(M);
  v.subcases = cnt * 3;
  v.nontrivial = true;
  v.label("bits-enum");
  return v;
}
static RegisterOp r_be({"bits_enum", "C13", 0, nullptr, exec_bits_enum, false});

// ------------------------------------------------------------------ combine
static void gen_combine(const GenCtx &ctx, Case &c, int viewpct) {
  std::string op = g::pick<std::string>({"mzd_combine", "mzd_combine_even", "mzd_combine_even_in_place"});
  c.sets("op", op);
  int wide = g::wpick<int>({{4, g::rng(1, 12)}, {1, g::rng(1, 40)}});  // words combined
  int tail = g::pick<int>({0, 1, 63, g::rng(1, 63)});                     // valid bits in the last word (0 = 64)
  int sa = g::rng(0, 3), sb = g::rng(0, 3), sc = g::rng(0, 3);
  c.set("wide", wide).set("tail", tail).set("sa", sa).set("sb", sb).set("sc", sc);
  c.set("ma", g::rng(1, 5)).set("mb", g::rng(1, 5)).set("mc", g::rng(1, 5));
  c.set("ra", 0).set("rb", 0).set("rc", 0);
  c.set("ra", g::rng(0, (int)c.i("ma") - 1)).set("rb", g::rng(0, (int)c.i("mb") - 1)).set("rc", g::rng(0, (int)c.i("mc") - 1));
  c.sets("alias", op == "mzd_combine" ? g::pick<std::string>({"none", "CeqA", "CeqA-inplace"}) : std::string("none"));
  c.setu("A.seed", g::seed()).setu("B.seed", g::seed()).setu("C.seed", g::seed());
  g::place(c, "A", viewpct);
  g::place(c, "B", viewpct);
  g::place(c, "C", viewpct);
}
static Verdict exec_combine(const Case &c) {
  Ex x(c);
  std::string op = c.s("op"), alias = c.s("alias", "none");
  int wide = (int)c.i("wide"), tail = (int)c.i("tail"), sa = (int)c.i("sa"), sb = (int)c.i("sb"), sc = (int)c.i("sc");
  int ma = (int)c.i("ma"), mb = (int)c.i("mb"), mc = (int)c.i("mc"), ra = (int)c.i("ra"), rb = (int)c.i("rb"), rc = (int)c.i("rc");
  int cols = 64 * (wide - 1) + (tail ? tail : 64);
  bool inplace = op == "mzd_combine_even_in_place" || alias == "CeqA-inplace";
  bool ceqa = alias == "CeqA" || inplace;
  if (ceqa) {
    mc = ma;
    if (inplace) {
      rc = ra;
      sc = sa;
    } else {
      sc = sa;                       // same matrix, same start block, but a different row (not in place)
      if (ma < 2) ma = mc = 2;
      rc = (ra + 1) % ma;
    }
  }
  Mat A(ma, 64 * sa + cols), B(mb, 64 * sb + cols), C(mc, 64 * sc + cols);
  fill_dense(A, c.u("A.seed"));
  fill_dense(B, c.u("B.seed"));
  fill_dense(C, c.u("C.seed"));
  Opnd oa, ob, oc;
  x.make(oa, "A", A);
  x.make(ob, "B", B);
  if (!ceqa) x.make(oc, "C", C);
  mzd_t *pc = ceqa ? oa.M : oc.M;
  Mat want = ceqa ? A : C;
  for (int j = 0; j < cols; j++) want.set(rc, 64 * sc + j, A.get(ra, 64 * sa + j) ^ B.get(rb, 64 * sb + j));
  if (op == "mzd_combine")
    vf_combine(pc, rc, sc, oa.M, ra, sa, ob.M, rb, sb);
  else if (op == "mzd_combine_even")
    vf_combine_even(pc, rc, sc, oa.M, ra, sa, ob.M, rb, sb);
  else
    vf_combine_even_in_place(oa.M, ra, sa, ob.M, rb, sb);
  Mat got = read_mzd(pc);
  x.expect(got, want, op);
  x.v.out(got);
  x.ro(ob, "B");
  if (ceqa)
    x.wr(oa, "A(dst)");
  else {
    x.ro(oa, "A");
    x.wr(oc, "C");
  }
  x.v.label("wide:" + std::string(wide <= 12 ? std::to_string(wide) : ">12"));
  x.v.nontrivial = true;
  return x.v;
}
static RegisterOp r_cb1({"mzd_combine", "C13", 8, gen_combine, exec_combine, true});
static RegisterOp r_cb2({"mzd_combine_even", "C13", 0, nullptr, exec_combine, true});
static RegisterOp r_cb3({"mzd_combine_even_in_place", "C13", 0, nullptr, exec_combine, true});

// ------------------------------------------------------------------ permutations
// rows of more than 65536 words: index tables inside the column-permutation kernel must hold such word indices.  The
// permutation is not spelled out but derived from a seed: identity except for `Pmoves` entries, half of which fetch a
// column from beyond column 2^22.
static std::vector<int> sparse_perm(const Case &c) {
  int len = (int)c.i("len");
  u64 s = c.u("Pgen");
  std::vector<int> P(len);
  for (int i = 0; i < len; i++) P[i] = i;
  const int top = 1 << 22;
  for (int j = 0; j < (int)c.i("Pmoves", 8); j++) {
    int a = (int)(splitmix64(s) % (u64)len), b;
    if ((splitmix64(s) & 1) && len > top + 1) b = top + (int)(splitmix64(s) % (u64)(len - top));
    else b = (int)(splitmix64(s) % (u64)len);
    if (a > b) std::swap(a, b);
    P[a] = b;  // LAPACK form: a <= P[a] < len
  }
  return P;
}

static void gen_perm(const GenCtx &ctx, Case &c, int viewpct) {
  if (ctx.scale >= 400 && g::coin(1, 5000)) {
    c.sets("op", g::pick<std::string>({"mzd_apply_p_right", "mzd_apply_p_right_trans"}));
    int n = (1 << 22) + g::rng(65, 70000);
    c.set("m", g::rng(1, 3)).set("n", n).sets("M.pat", "dense").setu("M.seed", g::seed());
    c.set("len", n).setu("Pgen", g::seed()).set("Pmoves", g::rng(4, 40)).set("undo", g::coin(1, 2));
    return;
  }
  std::string op = g::pick<std::string>({"mzd_apply_p_left", "mzd_apply_p_left_trans", "mzd_apply_p_right", "mzd_apply_p_right_trans",
                                         "mzd_apply_p_right", "mzd_apply_p_right_trans", "mzd_apply_p_right_even_capped",
                                         "mzd_apply_p_right_trans_even_capped", "mzd_apply_p_right_trans_tri"});
  c.sets("op", op);
  int capv = g::cap(ctx);
  bool left = op.find("left") != std::string::npos;
  int m, n;
  if (left) {
    m = g::dim(std::max(capv, 100));
    n = g::dim(std::min(std::max(capv, 130), 400));
  } else {
    // tall enough for several strips (strip height = L1/8/width resp. L1/4/width rows)
    m = g::wpick<int>({{3, g::dim(std::min(capv, 200))}, {2, g::rng(1, std::max(capv, 100) * 3)}});
    n = g::wpick<int>({{3, g::dim(std::max(capv, 130))}, {2, 64 * g::rng(0, 4) + g::rng(1, 64)}});
  }
  c.set("m", m).set("n", n);
  c.sets("M.pat", g::wpick<std::string>({{8, "dense"}, {1, "sp3"}, {1, "stripes"}}));
  c.setu("M.seed", g::seed());
  g::place(c, "M", viewpct);
  int dimn = left ? m : n;
  int len = op == "mzd_apply_p_right_trans_tri" ? n : g::wpick<int>({{5, dimn}, {1, g::rng(1, dimn)}, {1, std::max(1, dimn - 1)}});
  c.set("len", len);
  // LAPACK swap form of a permutation of `len` items: i <= P[i] < len (the form the library itself produces;
  // values >= len are outside the domain of a length-len permutation)
  c.sets("P", g::lapack_perm(len, len));
  if (op.find("capped") != std::string::npos) c.set("start_row", g::wpick<int>({{1, 0}, {2, g::rng(0, m)}}));
  c.set("undo", op.find("capped") == std::string::npos && op.find("tri") == std::string::npos && g::coin(1, 3));
}
static Verdict exec_perm(const Case &c) {
  Ex x(c);
  std::string op = c.s("op");
  int m = (int)c.i("m"), n = (int)c.i("n");
  std::vector<int> P = c.has("Pgen") ? sparse_perm(c) : parse_intlist(c.s("P"));
  if (c.has("Pgen")) x.v.label("rows-wider-than-65536-words");
  Mat A = build_pat(c, "M", m, n);
  Opnd o;
  x.make(o, "M", A);
  mzp_t *mp = mzp_init((int)P.size());
  for (size_t i = 0; i < P.size(); i++) vf_mzp_values(mp)[i] = P[i];
  Mat want = A;
  int sr = (int)c.i("start_row", 0);
  const char *undo_op = nullptr;
  if (op == "mzd_apply_p_left") {
    mzd_apply_p_left(o.M, mp);
    rowswaps_asc(want, P);
    // the same permutation matrix: Pi = ascending row swaps of the identity; want == Pi * A
    if (m <= 260) {
      Mat Pi = identity(m);
      rowswaps_asc(Pi, P);
      if (mul(Pi, A) != want) x.v.fail("harness: Pi*A differs from ascending row swaps");
    }
    undo_op = "left_trans";
  } else if (op == "mzd_apply_p_left_trans") {
    mzd_apply_p_left_trans(o.M, mp);
    rowswaps_desc(want, P);
    undo_op = "left";
  } else if (op == "mzd_apply_p_right") {
    mzd_apply_p_right(o.M, mp);
    colswaps_desc(want, P);
    if (n <= 260) {  // A * Pi for the same Pi that the left application multiplies by
      Mat Pi = identity(n);
      rowswaps_asc(Pi, P);
      if (mul(A, Pi) != want) x.v.fail("harness: A*Pi differs from descending column swaps");
    }
    undo_op = "right_trans";
  } else if (op == "mzd_apply_p_right_trans") {
    mzd_apply_p_right_trans(o.M, mp);
    colswaps_asc(want, P);
    undo_op = "right";
  } else if (op == "mzd_apply_p_right_even_capped" || op == "mzd_apply_p_right_trans_even_capped") {
    bool tr = op == "mzd_apply_p_right_trans_even_capped";
    if (tr)
      mzd_apply_p_right_trans_even_capped(o.M, mp, sr, 0);
    else
      mzd_apply_p_right_even_capped(o.M, mp, sr, 0);
    Mat T = A;
    if (tr)
      colswaps_asc(T, P);
    else
      colswaps_desc(T, P);
    for (int i = sr; i < m; i++) memcpy(want.row(i), T.row(i), sizeof(u64) * want.W);
  } else if (op == "mzd_apply_p_right_trans_tri") {
    mzd_apply_p_right_trans_tri(o.M, mp);
    for (int i = 0; i < (int)P.size(); i++)
      for (int r = 0; r < std::min(i, m); r++) {
        int a = want.get(r, i), b = want.get(r, P[i]);
        want.set(r, i, b);
        want.set(r, P[i], a);
      }
  } else
    throw std::runtime_error("bad perm op");
  Mat got = o.read();
  x.expect(got, want, op);
  x.v.out(got);
  x.wr(o, "M");
  if (c.i("undo", 0) && undo_op && x.v.ok) {
    std::string u = undo_op;
    if (u == "left") mzd_apply_p_left(o.M, mp);
    if (u == "left_trans") mzd_apply_p_left_trans(o.M, mp);
    if (u == "right") mzd_apply_p_right(o.M, mp);
    if (u == "right_trans") mzd_apply_p_right_trans(o.M, mp);
    x.expect(o.read(), A, op + " then its transposed counterpart");
    x.wr(o, "M");
    x.v.label("undo");
  }
  std::vector<int> Pv = read_mzp(mp);
  if (Pv != P) x.v.fail("permutation argument modified");
  mzp_free(mp);
  // non-trivial: not the identity; stronger label: a non-fixed point in every 64-column block
  bool ident = true;
  for (size_t i = 0; i < P.size(); i++) ident = ident && P[i] == (int)i;
  x.v.nontrivial = !ident && got != A;
  bool left = op.find("left") != std::string::npos;
  if (!left && !ident) {
    int blocks = (n + 63) / 64, moved = 0;
    std::vector<char> mb(blocks, 0);
    for (size_t i = 0; i < P.size(); i++)
      if (P[i] != (int)i) mb[i / 64] = mb[P[i] / 64] = 1;
    for (char ch : mb) moved += ch;
    x.v.label(moved == blocks ? "all-blocks-moved" : "some-blocks-fixed");
    int l1 = (int)vf_cfg_l1();
    int strip = std::max(1, (l1 >> 3) / ((n + 63) / 64));
    x.v.label(m - sr > strip ? "multi-strip" : "single-strip");
  }
  if ((int)P.size() < (left ? m : n)) x.v.label("perm-shorter");
  return x.v;
}
static const char *PERM_OPS[] = {"mzd_apply_p_left", "mzd_apply_p_left_trans", "mzd_apply_p_right", "mzd_apply_p_right_trans",
                                 "mzd_apply_p_right_even_capped", "mzd_apply_p_right_trans_even_capped", "mzd_apply_p_right_trans_tri"};
static RegisterOp r_p0({PERM_OPS[0], "C13", 25, gen_perm, exec_perm, true});
static RegisterOp r_p1({PERM_OPS[1], "C13", 0, nullptr, exec_perm, true});
static RegisterOp r_p2({PERM_OPS[2], "C13", 0, nullptr, exec_perm, true});
static RegisterOp r_p3({PERM_OPS[3], "C13", 0, nullptr, exec_perm, true});
static RegisterOp r_p4({PERM_OPS[4], "C13", 0, nullptr, exec_perm, true});
static RegisterOp r_p5({PERM_OPS[5], "C13", 0, nullptr, exec_perm, true});
static RegisterOp r_p6({PERM_OPS[6], "C13", 0, nullptr, exec_perm, true});

// ------------------------------------------------------------------ property C13
static Case gen_C13(const GenCtx &ctx) { return gen_from_ops("C13", ctx, 30); }
static std::vector<Case> enum_C13(const GenCtx &ctx) {
  std::vector<Case> v;
  for (int n : {64, 65, 127, 128, 130, 200})
    for (int rows : {1, 3, 4, 6}) {
      Case c;
      c.sets("prop", "C13").sets("op", "colswap_pairs_enum").set("m", 6).set("n", n).set("rows", rows).set("seed", 5 + n);
      v.push_back(c);
    }
  for (int s = 0; s < 4; s++) {
    Case c;
    c.sets("prop", "C13").sets("op", "bits_enum").set("seed", 11 + s);
    v.push_back(c);
  }
  return v;
}
static RegisterProp p_C13({"C13",
                           "random: op (row/col swap, swap in row range, row add/clear from a column, bit-range read/xor/clear, "
                           "row combination, 7 permutation applications) x shape x index-pair class x LAPACK permutation kind; "
                           "oracle = the statement's swap-sequence semantics in the model (+ Pi*A / A*Pi for the same Pi, + undo by the "
                           "transposed counterpart); non-trivial iff the operation changed the matrix (permutation != identity); "
                           "distinct by recipe hash. enumerated: every pair of bit positions from the first and from the last word "
                           "to every column (column swap), every (spot,n) of the bit-range primitives",
                           gen_C13, exec_op, enum_C13});
