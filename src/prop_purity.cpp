// C10: results are pure functions of operand values (any call history, any heap contents, any prior
// destination contents); owned matrices keep zero padding.
#include "gen.hpp"
using namespace model;

static Case gen_C10(const GenCtx &ctx) {
  std::vector<std::pair<int, const Op *>> w;
  for (auto &o : ops())
    if (o.gen && o.weight > 0 && std::string(o.prop) != "C19" && std::string(o.prop) != "C17") w.push_back({o.weight, &o});
  const Op *o = g::wpick(w);
  Case c;
  c.sets("prop", "C10");
  GenCtx sub = ctx;
  o->gen(sub, c, o->views_ok ? 25 : 0);  // a share of the operands are windows (dirty memory x window placement)
  even_offsets_for_building_blocks(c);
  // history: throw-away calls whose sizes are drawn from the dimensions of the final operation, so that the block
  // cache hands back dirty blocks of exactly the sizes the final operation allocates
  std::vector<int> dims;
  for (const char *k : {"m", "n", "l", "w", "x2", "ma", "mb", "na", "nb"})
    if (c.has(k)) dims.push_back((int)std::max<long long>(1, c.i(k)));
  if (dims.empty()) dims.push_back(64);
  int L = g::wpick<int>({{1, 0}, {4, g::rng(1, 8)}, {2, g::rng(8, 40)}});
  std::string h;
  for (int i = 0; i < L; i++) {
    char k = g::wpick<char>({{6, 'i'}, {3, 'm'}, {2, 'e'}, {2, 'p'}, {2, 't'}, {1, 'x'}, {1, 'r'}});
    int a = g::pick(dims), b = g::pick(dims), d = g::pick(dims);
    if (g::coin(1, 5)) a = g::rng(1, 300);
    if (g::coin(1, 5)) b = g::rng(1, 300);
    a = std::min(a, 1500);
    b = std::min(b, 1500);
    d = std::min(d, 1500);
    if (!h.empty()) h += ';';
    h += std::string(1, k) + "." + std::to_string(a) + "." + std::to_string(b) + "." + std::to_string(d);
  }
  c.sets("H.hist", h.empty() ? "-" : h);
  // the same operation with the same shape and parameters on other data, immediately before the judged call: state that a
  // routine keeps between calls keyed by shape (a cached table, a static scratch row) would carry over
  if (g::coin(1, 2)) c.setu("H.same", g::seed() | 1);
  c.set("H.fill", g::pick<int>({0xA5, 0xFF, 0x01, 0x00, g::rng(0, 255), -1}));
  return c;
}

static void run_history(const std::string &h) {
  if (h == "-" || h.empty()) return;
  size_t i = 0;
  int step = 0;
  while (i < h.size()) {
    size_t j = h.find(';', i);
    if (j == std::string::npos) j = h.size();
    std::string t = h.substr(i, j - i);
    char k = t[0];
    int a = 1, b = 1, d = 1;
    sscanf(t.c_str() + 1, ".%d.%d.%d", &a, &b, &d);
    step++;
    switch (k) {
    case 'i': {  // leave a dirty block of exactly this shape in the cache
      Mat J(a, b);
      for (auto &x : J.w) x = ~0ull;
      J.mask();
      mzd_t *M = make_mzd(J);
      mzd_free(M);
      break;
    }
    case 'm': {
      Mat A(a, b), B(b, d);
      fill_dense(A, step);
      fill_dense(B, step + 77);
      mzd_t *x = make_mzd(A), *y = make_mzd(B);
      mzd_t *z = mzd_mul(nullptr, x, y, 0);
      mzd_free(x);
      mzd_free(y);
      mzd_free(z);
      break;
    }
    case 'e': {
      Mat A(a, b);
      fill_dense(A, step);
      mzd_t *x = make_mzd(A);
      mzd_echelonize(x, step & 1);
      mzd_free(x);
      break;
    }
    case 'p': {
      Mat A(a, b);
      fill_dense(A, step);
      mzd_t *x = make_mzd(A);
      mzp_t *P = mzp_init(a), *Q = mzp_init(b);
      mzd_pluq(x, P, Q, 0);
      mzp_free(P);
      mzp_free(Q);
      mzd_free(x);
      break;
    }
    case 't': {
      Mat A(a, b);
      fill_dense(A, step);
      mzd_t *x = make_mzd(A);
      mzd_t *y = mzd_transpose(nullptr, x);
      mzd_free(x);
      mzd_free(y);
      break;
    }
    case 'x': {  // many sizes: evict cached blocks
      for (int q = 0; q < 18; q++) {
        mzd_t *M = mzd_init(1 + q, 64 * (1 + q % 5) + a % 64);
        mzd_free(M);
      }
      break;
    }
    case 'r': m4ri_fini(); m4ri_init(); break;
    }
    i = j + 1;
  }
}

static Verdict exec_C10(const Case &c) {
  Verdict r;
  bool wrap = vf_wrap_present();
  // run 1: fresh state: empty block cache and every fresh heap block zero-filled, as the first call of a process that
  // gets zero pages from the kernel would see it (the test process itself has long since recycled its heap)
  m4ri_fini();
  m4ri_init();
  vf_wrap_set_fill(0x00, -1);
  vf_wrap_enable(1);
  long a0 = vf_wrap_allocs();
  Verdict v1 = exec_op(c);
  long n1 = vf_wrap_allocs() - a0;
  // metamorphic relation of the property's "any prior contents of a supplied destination" clause: for operations that
  // overwrite their destination, other destination contents (zeros / ones) must give the same digest - judged even when
  // the model oracle of run 1 already fails, because this clause belongs to this property
  bool dst_is_input = c.s("op").find("addmul") != std::string::npos || c.i("clear", 1) == 0 || c.s("op") == "mzd_copy_row" ||
                      (c.s("op") == "mzd_copy" && (c.i("xm", 0) || c.i("xn", 0)));
  bool has_dst = false;
  for (auto &kv : c.kv)
    if (kv.first.size() > 6 && kv.first.compare(kv.first.size() - 6, 6, ".jkind") == 0) has_dst = true;
  std::string dst_dep;
  bool pq_varied = false;
  if (c.has("pq.kind")) {
    // permutation objects handed to a factorisation are destinations too: identity / other in-range prior contents
    pq_varied = true;
    for (int pk = 0; pk < 2 && dst_dep.empty(); pk++) {
      Case cv = c;
      cv.set("pq.kind", pk);
      Verdict vd = exec_op(cv);
      if (vd.outhash != v1.outhash || vd.rawhash != v1.rawhash)
        dst_dep = std::string("the result (factors, P, Q) depends on the prior contents of the supplied permutations (as generated vs. ") + (pk ? "other in-range values" : "identity") + ")";
    }
  }
  if (has_dst && !dst_is_input) {
    for (int jk = 0; jk < 2 && dst_dep.empty(); jk++) {
      Case cv = c;
      for (auto &kv : cv.kv)
        if (kv.first.size() > 6 && kv.first.compare(kv.first.size() - 6, 6, ".jkind") == 0) kv.second = std::to_string(jk);
      Verdict vd = exec_op(cv);
      if (vd.outhash != v1.outhash || vd.rawhash != v1.rawhash)
        dst_dep = std::string("the result depends on the prior contents of the supplied destination (junk vs. all-") + (jk ? "ones" : "zeros") + ")";
    }
  }
  // run 2: after a history, with fresh blocks pattern-filled and freed blocks poisoned
  int fill = (int)c.i("H.fill", -1);
  vf_wrap_set_fill(fill, fill >= 0 ? (fill ^ 0x3C) & 0xFF : -1);
  run_history(c.s("H.hist", "-"));
  if (c.has("H.same")) {
    Case other = c;
    u64 x = c.u("H.same");
    for (auto &kv : other.kv)
      if (kv.first.size() >= 4 && kv.first.compare(kv.first.size() - 4, 4, "seed") == 0 && kv.first.rfind("H.", 0) != 0) {
        char buf[32];
        snprintf(buf, sizeof buf, "0x%llx", (unsigned long long)(strtoull(kv.second.c_str(), nullptr, 0) ^ x));
        kv.second = buf;
      }
    (void)exec_op(other);  // verdict not judged here: only its side effects on library state matter
  }
  long a1 = vf_wrap_allocs();
  Verdict v2 = exec_op(c);
  long n2 = vf_wrap_allocs() - a1;
  vf_wrap_set_fill(-1, -1);
  vf_wrap_enable(0);
  r.labels = v2.labels;
  r.outhash = v2.outhash;
  if ((has_dst && !dst_is_input) || pq_varied) r.label("destination-contents-varied");
  if (!dst_dep.empty()) {
    r.fail(dst_dep);
    return r;
  }
  if (!v1.ok) {
    // the padding clause of the property holds for every operation in every state
    if (v1.msg.find("non-zero padding") != std::string::npos) {
      r.fail("in a fresh state: " + v1.msg);
      return r;
    }
    // otherwise wrong already in a fresh state: not a statement about histories (the owning property reports it)
    r.label("fails-in-fresh-state(other-property)");
    return r;
  }
  if (!v2.ok)
    r.fail("after the call history / with heap pattern " + std::to_string(fill) + ": " + v2.msg + " (correct in a fresh state)");
  else if (v1.outhash != v2.outhash || v1.rawhash != v2.rawhash)
    r.fail("result differs between a fresh state and the state after the call history (heap pattern " + std::to_string(fill) + ")");
  bool recycled = wrap && n2 < n1;
  if (recycled) r.label("recycled-block-served");
  if (fill >= 0) r.label("heap-fill");
  if (c.s("H.hist", "-") != "-") r.label("history");
  if (c.has("H.same")) r.label("same-operation-on-other-data-first");
  r.label(wrap ? "alloc-wrapper" : "no-alloc-wrapper");
  r.nontrivial = v2.nontrivial && (recycled || fill > 0);
  return r;
}

// deterministic sweep serving the padding clause: every row/column count residue through the transposition kernels
// (fresh and junk destination, heap pattern active)
static std::vector<Case> enum_C10(const GenCtx &ctx) {
  std::vector<Case> v;
  int lim = ctx.tier ? 200 : 140;
  for (int a = 1; a <= lim; a++)
    for (int b : {1, 2, 63, 64, 65, 127, 128, 129, 200}) {
      for (int orient = 0; orient < 2; orient++) {
        Case c;
        int m = orient ? b : a, n = orient ? a : b;
        c.sets("prop", "C10").sets("op", "mzd_transpose").set("m", m).set("n", n).sets("A.pat", "dense").setu("A.seed", 77 + a * 13 + b);
        c.sets("D.dst", (a + b) % 2 ? "given" : "null");
        if ((a + b) % 2) c.set("D.jkind", 1).setu("D.jseed", 5);
        c.set("twice", 0).sets("H.hist", "-").set("H.fill", 0xA5);
        v.push_back(c);
      }
    }
  return v;
}

static RegisterProp p_C10({"C10",
                           "random: (final operation from the catalogue with owned operands and junk destinations) x (history of 0..40 "
                           "throw-away calls - dirty blocks of exactly the shapes of the final operation left in the block cache, "
                           "products, echelon forms, PLUQ, transposes, eviction bursts, fini+init; in half of the cases followed by the same "
                           "operation with the same shape and parameters on other data) x heap pattern applied by the "
                           "allocation wrapper to every fresh block (and a different one to freed blocks); oracle = the operation's model "
                           "oracle + identical output digest (canonical outputs and a raw digest of everything written, incl. full permutation "
                           "arrays) in a fresh state, after the history and for other prior contents of supplied destinations (matrices: "
                           "zeros / ones; permutations: identity / other in-range values) + zero padding of every owned "
                           "operand and result; non-trivial iff the operation's own rule holds and (a recycled block was served to it - "
                           "observed as fewer allocator requests than in the fresh state - or a non-zero heap pattern was active); "
                           "distinct by recipe hash. enumerated: transposition of every shape a x b and b x a with a in 1..140 (200 thorough), b in "
                           "{1,2,63,64,65,127,128,129,200}, alternating fresh / junk destination, heap pattern 0xA5 (padding clause on every "
                           "row/column residue of the transpose kernels)",
                           gen_C10, exec_C10, enum_C10});
