// C20: if any single allocation request of a library call fails, the process ends in the library's
// controlled abort (diagnostic on stderr, then abort()).  Fault enumeration: for a scenario instance the
// number N of allocation requests is counted in a forked child, then for EVERY i < N a fresh child runs
// the scenario with request i failing.
#include "gen.hpp"
#include <signal.h>
#include <sys/wait.h>
#include <unistd.h>
#include <fcntl.h>
using namespace model;

namespace {

struct Scn {
  int m, l, n, k;
  u64 seed;
  std::vector<mzd_t *> M;
  std::vector<mzp_t *> P;
  std::string file;
  Mat rnd(int r, int c, int salt = 0) {
    Mat A(r, c);
    fill_dense(A, seed + salt);
    return A;
  }
};

typedef void (*setup_fn)(Scn &);
typedef void (*run_fn)(Scn &);
struct Scenario {
  const char *name;
  setup_fn setup;
  run_fn run;
  bool needs_file;
};

static Mat unit_tri(Scn &s, int n, bool lower, int salt) {
  Mat T = s.rnd(n, n, salt);
  for (int i = 0; i < n; i++) T.set(i, i, 1);
  return T;
}
static Mat invertible(Scn &s, int n) {
  Mat L = tri_lower_unit(s.rnd(n, n, 5)), U = tri_upper_unit(s.rnd(n, n, 6));
  return mul(L, U);
}

static void su_AB(Scn &s) {
  s.M.push_back(make_mzd(s.rnd(s.m, s.l, 1)));
  s.M.push_back(make_mzd(s.rnd(s.l, s.n, 2)));
  s.M.push_back(make_mzd(s.rnd(s.m, s.n, 3)));
}
static void su_A(Scn &s) { s.M.push_back(make_mzd(s.rnd(s.m, s.n, 1))); }
// sparse rows (20 ones each): the hybrid echelon form starts with M4RI and hands over to PLUQ once fill-in has made the
// rest dense (checked every 256 columns) - the hand-over has allocations of its own
static void su_sparse(Scn &s) {
  Mat A(s.m, s.n);
  u64 x = s.seed + 17;
  for (int i = 0; i < s.m; i++)
    for (int t = 0; t < 20; t++) A.set(i, (int)(splitmix64(x) % (u64)s.n), 1);
  s.M.push_back(make_mzd(A));
}
static void su_lowrank(Scn &s) {
  Mat X = s.rnd(s.m, std::max(1, std::min(s.m, s.n) / 2), 1), Y = s.rnd(std::max(1, std::min(s.m, s.n) / 2), s.n, 2);
  s.M.push_back(make_mzd(mul(X, Y)));
}
static void su_APQ(Scn &s) {
  su_lowrank(s);
  s.P.push_back(mzp_init(s.m));
  s.P.push_back(mzp_init(s.n));
}
static void su_sq(Scn &s) { s.M.push_back(make_mzd(invertible(s, s.n))); }
static void su_trsm(Scn &s) {
  s.M.push_back(make_mzd(unit_tri(s, s.n, true, 1)));
  s.M.push_back(make_mzd(s.rnd(s.n, s.m, 2)));   // left variants: n x m
  s.M.push_back(make_mzd(s.rnd(s.m, s.n, 3)));   // right variants: m x n
}
static void su_solve(Scn &s) {
  su_lowrank(s);
  s.M.push_back(make_mzd(s.rnd(std::max(s.m, s.n), s.l, 4)));
}
static void su_view(Scn &s) {
  // [0] parent, [1] window with excess bits (dangerous), [2] source for transposition into it
  s.M.push_back(make_mzd(s.rnd(s.m + 2, s.n + 70, 1)));
  s.M.push_back(mzd_init_window(s.M[0], 1, 64, 1 + s.m, 64 + s.n));
  s.M.push_back(make_mzd(s.rnd(s.n, s.m, 2)));
}
static void su_perm(Scn &s) {
  su_A(s);
  s.M.push_back(make_mzd(s.rnd(s.n, s.m, 9)));  // n rows: the permutation of length n applies from the left
  mzp_t *P = mzp_init(s.n);
  u64 x = s.seed;
  for (int i = 0; i < s.n; i++) vf_mzp_values(P)[i] = i + (int)(splitmix64(x) % (u64)(s.n - i));
  s.P.push_back(P);
}
static void su_png(Scn &s) {
  su_A(s);
  mzd_to_png(s.M[0], s.file.c_str(), 1, "c20", 0);
}
static void su_jcf(Scn &s) {
  FILE *f = fopen(s.file.c_str(), "w");
  fprintf(f, "%d %d 2\n%d\n\n", s.m, s.n, 4 * s.m);
  u64 x = s.seed;
  for (int i = 0; i < s.m; i++) {
    int first = 1 + (int)(splitmix64(x) % (u64)s.n);
    fprintf(f, "-%d\n", first);
    for (int t = 0; t < 3; t++) fprintf(f, "%d\n", 1 + (int)(splitmix64(x) % (u64)s.n));
  }
  fclose(f);
}
static void su_none(Scn &) {}

#define RUN(name, body) static void name(Scn &s) { body; }
RUN(r_create, mzd_t *A = mzd_init(s.m, s.n); mzd_free(A))
RUN(r_window, mzd_t *W = mzd_init_window(s.M[0], 0, 0, s.m, s.n); vf_free_window(W))
RUN(r_mzp, mzp_t *P = mzp_init(s.n); mzp_free(P))
// more than 64 (and more than 128) simultaneously live headers: the header cache allocates further blocks
static void r_many_headers(Scn &s) {
  std::vector<mzd_t *> w;
  // k >= 100 is the number of live headers itself: beyond 16 full header blocks (1024) every further header is a
  // separate heap allocation
  int cnt = s.k >= 100 ? s.k : 70 + (s.k % 3) * 64;
  for (int i = 0; i < cnt; i++) w.push_back(mzd_init_window(s.M[0], 0, 0, 1 + i % s.m, 1 + i % s.n));
  for (int i = 0; i < cnt; i += 2) vf_free_window(w[i]);
  for (int i = 1; i < cnt; i += 2) vf_free_window(w[i]);
}
static void r_many_matrices(Scn &s) {
  std::vector<mzd_t *> w;
  int cnt = s.k >= 100 ? s.k : 70;
  for (int i = 0; i < cnt; i++) w.push_back(mzd_init(1 + i % 5, 1 + i % 130));
  if (cnt > 1024) {  // operations (with temporaries) while the header cache is exhausted
    mzd_t *T = mzd_transpose(nullptr, w[7]);
    mzd_free(T);
    mzd_t *W = mzd_init_window(w[9], 0, 0, 1, 1);
    vf_free_window(W);
  }
  for (auto m : w) mzd_free(m);
}
RUN(r_mul_naive, mzd_free(mzd_mul_naive(nullptr, s.M[0], s.M[1])))
RUN(r_addmul_naive, mzd_addmul_naive(s.M[2], s.M[0], s.M[1]))
RUN(r_mul_m4rm, mzd_free(mzd_mul_m4rm(nullptr, s.M[0], s.M[1], s.k)))
RUN(r_addmul_m4rm, mzd_addmul_m4rm(s.M[2], s.M[0], s.M[1], s.k))
RUN(r_mul, mzd_free(mzd_mul(nullptr, s.M[0], s.M[1], 64)))
RUN(r_addmul, mzd_addmul(s.M[2], s.M[0], s.M[1], 64))
RUN(r_sqr, mzd_free(mzd_mul(nullptr, s.M[0], s.M[0], 64)))
RUN(r_mul_mp, int u = 0; mzd_t *C = vf_mul_mp(nullptr, s.M[0], s.M[1], 64, 0, &u); if (C) mzd_free(C))
RUN(r_ech_naive, mzd_echelonize_naive(s.M[0], 1))
RUN(r_ech_m4ri, mzd_echelonize_m4ri(s.M[0], s.k & 1, s.k))
RUN(r_ech, mzd_echelonize(s.M[0], 1))
RUN(r_ech_pluq, mzd_echelonize_pluq(s.M[0], s.k & 1))
RUN(r_top, mzd_echelonize_m4ri(s.M[0], 0, 0); mzd_top_echelonize_m4ri(s.M[0], s.k))
RUN(r_ple, mzd_ple(s.M[0], s.P[0], s.P[1], 0))
RUN(r_pluq, mzd_pluq(s.M[0], s.P[0], s.P[1], 64))
RUN(r_ple_russian, _mzd_ple_russian(s.M[0], s.P[0], s.P[1], s.k))
RUN(r_inv, mzd_free(mzd_inv_m4ri(nullptr, s.M[0], 0)))
RUN(r_inv_naive, mzd_t *I = mzd_init(s.n, s.n); mzd_set_ui(I, 1); mzd_t *R = mzd_invert_naive(nullptr, s.M[0], I); if (R) mzd_free(R); mzd_free(I))
RUN(r_trtri, mzd_t *U = mzd_extract_u(nullptr, s.M[0]); for (int i = 0; i < s.n; i++) vf_write_bit(U, i, i, 1); mzd_trtri_upper(U); mzd_free(U))
RUN(r_solve, mzd_solve_left(s.M[0], s.M[1], 0, 1))
RUN(r_kernel, mzd_t *K = mzd_kernel_left_pluq(s.M[0], 0); if (K) mzd_free(K))
RUN(r_trsm_ll, mzd_trsm_lower_left(s.M[0], s.M[1], 64))
RUN(r_trsm_ul, mzd_trsm_upper_left(s.M[0], s.M[1], 64))
RUN(r_trsm_lr, mzd_trsm_lower_right(s.M[0], s.M[2], 64))
RUN(r_trsm_ur, mzd_trsm_upper_right(s.M[0], s.M[2], 64))
RUN(r_transpose, mzd_free(mzd_transpose(nullptr, s.M[0])))
RUN(r_transpose_view, mzd_transpose(s.M[1], s.M[2]))
RUN(r_transpose_from_view, mzd_free(mzd_transpose(nullptr, s.M[1])))
RUN(r_copy, mzd_free(mzd_copy(nullptr, s.M[0])))
RUN(r_submatrix, mzd_free(mzd_submatrix(nullptr, s.M[0], 0, 1, s.m, s.n)))
RUN(r_concat, mzd_free(mzd_concat(nullptr, s.M[0], s.M[0])))
RUN(r_stack, mzd_free(mzd_stack(nullptr, s.M[0], s.M[0])))
RUN(r_add, mzd_free(mzd_add(nullptr, s.M[0], s.M[0])))
RUN(r_extract, mzd_free(mzd_extract_u(nullptr, s.M[0])); mzd_free(mzd_extract_l(nullptr, s.M[0])))
RUN(r_perm_right, mzd_apply_p_right(s.M[0], s.P[0]))
RUN(r_perm_right_trans, mzd_apply_p_right_trans(s.M[0], s.P[0]))
RUN(r_perm_tri, mzd_apply_p_right_trans_tri(s.M[0], s.P[0]); mzd_apply_p_left_trans(s.M[1], s.P[0]))
RUN(r_png_write, mzd_to_png(s.M[0], s.file.c_str(), 3, "comment", 0))
RUN(r_png_read, mzd_t *A = mzd_from_png(s.file.c_str(), 0); if (A) mzd_free(A))
RUN(r_jcf_read, mzd_t *A = mzd_from_jcf(s.file.c_str(), 0); if (A) mzd_free(A))
RUN(r_from_str, std::string t((size_t)s.m * s.n, '1'); mzd_t *A = mzd_from_str(s.m, s.n, t.c_str()); mzd_free(A))
RUN(r_djb, djb_t *z = djb_compile(s.M[0]); mzd_t *W = mzd_init(s.m, s.n); djb_apply_mzd(z, W, s.M[1]); mzd_free(W); vf_djb_free(z))
// library re-initialisation: the code books are rebuilt (49 allocation requests)
RUN(r_fini_init, m4ri_fini(); m4ri_init())
static void su_djb(Scn &s) {
  s.M.push_back(make_mzd(s.rnd(s.m, s.l, 1)));
  s.M.push_back(make_mzd(s.rnd(s.l, s.n, 2)));
}
static void su_solve2(Scn &s) {
  su_lowrank(s);
  s.M.push_back(make_mzd(s.rnd(std::max(s.m, s.n), s.l, 4)));
}

static const Scenario SCN[] = {
    {"create", su_none, r_create, false},
    {"window", su_A, r_window, false},
    {"mzp_init", su_none, r_mzp, false},
    {"many_live_windows", su_A, r_many_headers, false},
    {"many_live_matrices", su_none, r_many_matrices, false},
    {"mul_naive", su_AB, r_mul_naive, false},
    {"addmul_naive", su_AB, r_addmul_naive, false},
    {"mul_m4rm", su_AB, r_mul_m4rm, false},
    {"addmul_m4rm", su_AB, r_addmul_m4rm, false},
    {"mul_strassen", su_AB, r_mul, false},
    {"addmul_strassen", su_AB, r_addmul, false},
    {"square_strassen", su_sq, r_sqr, false},
    {"mul_mp", su_AB, r_mul_mp, false},
    {"echelonize_naive", su_lowrank, r_ech_naive, false},
    {"echelonize_m4ri", su_lowrank, r_ech_m4ri, false},
    {"echelonize_hybrid", su_A, r_ech, false},
    {"echelonize_pluq", su_lowrank, r_ech_pluq, false},
    {"echelonize_hybrid_handover", su_sparse, r_ech, false},
    {"top_echelonize", su_lowrank, r_top, false},
    {"ple", su_APQ, r_ple, false},
    {"pluq", su_APQ, r_pluq, false},
    {"ple_russian", su_APQ, r_ple_russian, false},
    {"inv_m4ri", su_sq, r_inv, false},
    {"invert_naive", su_sq, r_inv_naive, false},
    {"trtri_upper", su_sq, r_trtri, false},
    {"solve_left", su_solve2, r_solve, false},
    {"kernel_left_pluq", su_lowrank, r_kernel, false},
    {"trsm_lower_left", su_trsm, r_trsm_ll, false},
    {"trsm_upper_left", su_trsm, r_trsm_ul, false},
    {"trsm_lower_right", su_trsm, r_trsm_lr, false},
    {"trsm_upper_right", su_trsm, r_trsm_ur, false},
    {"transpose", su_A, r_transpose, false},
    {"transpose_into_window", su_view, r_transpose_view, false},
    {"transpose_from_window", su_view, r_transpose_from_view, false},
    {"copy", su_A, r_copy, false},
    {"submatrix", su_A, r_submatrix, false},
    {"concat", su_A, r_concat, false},
    {"stack", su_A, r_stack, false},
    {"add", su_A, r_add, false},
    {"extract_u_l", su_sq, r_extract, false},
    {"apply_p_right", su_perm, r_perm_right, false},
    {"apply_p_right_trans", su_perm, r_perm_right_trans, false},
    {"apply_p_tri_left", su_perm, r_perm_tri, false},
    {"png_write", su_A, r_png_write, true},
    {"png_read", su_png, r_png_read, true},
    {"jcf_read", su_jcf, r_jcf_read, true},
    {"from_str", su_none, r_from_str, false},
    {"djb_compile_apply", su_djb, r_djb, false},
    {"fini_init", su_none, r_fini_init, false},
};
static const int NSCN = sizeof(SCN) / sizeof(SCN[0]);

static std::string tmpdir() {
  const char *t = getenv("VF_TMP");
  return t ? t : "/tmp";
}
static const Scenario *find_scn(const std::string &n) {
  for (auto &s : SCN)
    if (n == s.name) return &s;
  throw std::runtime_error("unknown scenario " + n);
}

struct Fate {
  int status = 0;
  bool exited = false, signaled = false;
  int code = 0, sig = 0;
  std::string err;
  long requests = -1;
};

// run the scenario in a forked child; fail_at < 0: count only
static Fate run_child(const Scenario *sc, const Case &c, long fail_at) {
  int ep[2], cp[2];
  if (pipe(ep) || pipe(cp)) throw std::runtime_error("pipe failed");
  fflush(stdout);
  fflush(stderr);
  pid_t pid = fork();
  if (pid < 0) throw std::runtime_error("fork failed");
  if (pid == 0) {
    close(ep[0]);
    close(cp[0]);
    dup2(ep[1], 2);
    alarm(60);
    Scn s;
    s.m = (int)c.i("m");
    s.l = (int)c.i("l");
    s.n = (int)c.i("n");
    s.k = (int)c.i("k", 0);
    s.seed = c.u("seed", 1);
    s.file = c.s("file", "/tmp/vf-c20.tmp") + "." + std::to_string(getpid());
    vf_wrap_enable(0);
    sc->setup(s);
    m4ri_mmc_cleanup();  // parent and every child start the scenario from the same (empty) block cache
    vf_wrap_fail_at(fail_at);
    vf_wrap_enable(1);
    sc->run(s);
    vf_wrap_enable(0);
    long req = vf_wrap_requests();
    if (write(cp[1], &req, sizeof req) < 0) _exit(4);
    if (sc->needs_file) unlink(s.file.c_str());
    _exit(0);
  }
  close(ep[1]);
  close(cp[1]);
  Fate f;
  char buf[4096];
  ssize_t k;
  while ((k = read(ep[0], buf, sizeof buf)) > 0)
    if (f.err.size() < 20000) f.err.append(buf, (size_t)k);
  long req = -1;
  if (read(cp[0], &req, sizeof req) == (ssize_t)sizeof req) f.requests = req;
  close(ep[0]);
  close(cp[0]);
  waitpid(pid, &f.status, 0);
  f.exited = WIFEXITED(f.status);
  f.signaled = WIFSIGNALED(f.status);
  if (f.exited) f.code = WEXITSTATUS(f.status);
  if (f.signaled) f.sig = WTERMSIG(f.status);
  if (c.has("file")) unlink((c.s("file") + "." + std::to_string(pid)).c_str());
  return f;
}

static bool sanitizer_text(const std::string &e) {
  return e.find("ERROR: AddressSanitizer") != std::string::npos || e.find("runtime error:") != std::string::npos ||
         e.find("UndefinedBehaviorSanitizer") != std::string::npos || e.find("LeakSanitizer") != std::string::npos;
}

static Verdict exec_C20(const Case &c) {
  Verdict v;
  if (!vf_wrap_present()) {
    v.fail("harness: C20 needs a build with the allocation wrapper");
    return v;
  }
  const Scenario *sc = find_scn(c.s("op"));
  if (std::string(sc->name) == "mul_mp" && !vf_cfg_have_openmp()) {
    v.label("unsupported-in-this-build");
    return v;
  }
  Fate cnt = run_child(sc, c, -1);
  if (!(cnt.exited && cnt.code == 0) || cnt.requests < 0) {
    // the scenario does not complete even without an injected fault: not a statement about allocation failure
    v.label("scenario-fails-without-fault(other-property)");
    return v;
  }
  long N = cnt.requests;
  long lo = 0, hi = N;
  if (c.has("only")) {
    lo = c.i("only");
    hi = lo + 1;
  }
  long done = 0;
  for (long i = lo; i < hi && v.ok; i++) {
    Fate f = run_child(sc, c, i);
    done++;
    std::string where = std::string(sc->name) + ": allocation request " + std::to_string(i) + " of " + std::to_string(N) + " fails -> ";
    if (f.signaled && f.sig == SIGABRT && !sanitizer_text(f.err) && !f.err.empty()) continue;  // controlled abort with a diagnostic
    if (f.signaled && f.sig == SIGABRT && sanitizer_text(f.err))
      v.fail(where + "sanitizer report instead of the library's error handler: " + f.err.substr(0, 300));
    else if (f.signaled && f.sig == SIGABRT)
      v.fail(where + "abort without a diagnostic on stderr");
    else if (f.signaled && f.sig == SIGALRM)
      v.fail(where + "hang");
    else if (f.signaled)
      v.fail(where + "killed by signal " + std::to_string(f.sig) + " (null result dereferenced?) " + f.err.substr(0, 200));
    else if (f.exited && f.code == 0 && f.requests > i)
      v.fail(where + "the call returned normally and execution continued");
    else if (f.exited && f.code == 0)
      continue;  // the request index was not reached in this child (fewer requests than counted): nothing was injected
    else
      v.fail(where + "exit status " + std::to_string(f.code) + " " + f.err.substr(0, 200));
  }
  v.subcases = done;
  v.label(std::string("scenario:") + sc->name);
  v.label(N == 0 ? "no-allocation" : N == 1 ? "1-allocation" : N < 10 ? "2-9-allocations" : N < 100 ? "10-99-allocations" : ">=100-allocations");
  v.nontrivial = N >= 2;
  v.out((u64)N);
  return v;
}

static void sizes_for(Case &c, const std::string &name, int variant, u64 seed) {
  // operand sizes: small, around a word boundary, and large enough for the recursive / table regimes
  static const int V[4][3] = {{5, 7, 9}, {65, 64, 130}, {150, 140, 160}, {300, 270, 290}};
  int m = V[variant][0], l = V[variant][1], n = V[variant][2];
  if (name.find("naive") != std::string::npos || name == "djb_compile_apply" || name.find("png") != std::string::npos ||
      name == "jcf_read" || name == "from_str") {
    m = std::min(m, 150);
    l = std::min(l, 140);
    n = std::min(n, 160);
  }
  if (name == "djb_compile_apply") {  // needs > 64 operations: 2nd chunk of the op list
    m = std::max(m, 40);
    l = std::max(l, 40);
  }
  c.set("m", m).set("l", l).set("n", n).set("k", variant * 2 + (int)(seed % 3)).setu("seed", seed);
}

static std::vector<Case> enum_C20(const GenCtx &ctx) {
  std::vector<Case> v;
  int nv = ctx.tier ? 4 : 3;
  for (int s = 0; s < NSCN; s++)
    for (int var = 0; var < nv; var++) {
      Case c;
      c.sets("prop", "C20").sets("op", SCN[s].name);
      sizes_for(c, SCN[s].name, var, 11 + 7 * var + s);
      if (SCN[s].needs_file) c.sets("file", tmpdir() + "/vf-c20-" + std::to_string(s) + "-" + std::to_string(var));
      v.push_back(c);
    }
  // allocation paths may depend on the size class of the request (block cache threshold, large-block shortcuts): the cheap
  // data-movement scenarios are also enumerated with operands whose data blocks exceed 1 MiB resp. the cache threshold
  // deep Strassen recursion keeps more than 64 window headers alive
  for (const char *name : {"mul_strassen", "addmul_strassen", "square_strassen"}) {
    if (!ctx.tier) break;  // thorough tier only (hundreds of forks with 520^3 operands); the quick tier reaches the same
                           // allocation site through the many_live_* scenarios
    Case c;
    c.sets("prop", "C20").sets("op", name).set("m", 520).set("l", 520).set("n", 520).set("k", 0).setu("seed", 99);
    v.push_back(c);
  }
  {
    Case c;  // large enough for the hybrid's mid-run hand-over (needs > 512 columns and fill-in by the first density check)
    c.sets("prop", "C20").sets("op", "echelonize_hybrid_handover").set("m", 1000).set("l", 4).set("n", 1000).set("k", 0).setu("seed", 21);
    v.push_back(c);
  }
  // more than 1024 live headers: the header cache (16 blocks of 64) is exhausted and each further header is its own allocation
  for (const char *name : {"many_live_windows", "many_live_matrices"}) {
    Case c;
    c.sets("prop", "C20").sets("op", name).set("m", 20).set("l", 20).set("n", 70).set("k", 1031).setu("seed", 5);
    v.push_back(c);
  }
  // a handful of rows, very many columns: per-row scratch (write masks, permutation tables, row buffers) is sized by the
  // width, and an allocation may only exist beyond a width threshold derived from the L1 size (64 words with a 4 KiB L1,
  // 512 words with 32 KiB)
  for (const char *name : {"apply_p_right", "apply_p_right_trans", "ple", "pluq", "echelonize_pluq", "echelonize_m4ri", "add", "copy", "png_write"}) {
    for (int wide : {4200, 33000}) {
      Case c;
      c.sets("prop", "C20").sets("op", name).set("m", 4).set("l", 4).set("n", wide).set("k", 0).setu("seed", 7 + wide);
      for (int s2 = 0; s2 < NSCN; s2++)
        if (std::string(SCN[s2].name) == name && SCN[s2].needs_file) c.sets("file", tmpdir() + "/vf-c20-wide-" + std::to_string(wide));
      v.push_back(c);
    }
  }
  for (const char *name : {"create", "copy", "add", "transpose", "submatrix", "concat", "stack", "transpose_into_window", "mzp_init"}) {
    for (int big : {2944, 4160}) {
      Case c;
      c.sets("prop", "C20").sets("op", name).set("m", big).set("l", 64).set("n", big + 7).set("k", 0).setu("seed", 3 + big);
      v.push_back(c);
    }
  }
  return v;
}

static Case gen_C20(const GenCtx &) {
  Case c;
  int s = g::rng(0, NSCN - 1);
  c.sets("prop", "C20").sets("op", SCN[s].name);
  int m = g::dim(200, {64, 128}), l = g::dim(200, {64, 128}), n = g::dim(200, {64, 128});
  std::string name = SCN[s].name;
  if (name == "djb_compile_apply") {
    m = std::max(m, 30);
    l = std::max(l, 30);
  }
  if (name == "submatrix") n = std::max(n, 2);
  c.set("m", m).set("l", l).set("n", n).set("k", g::rng(0, 8)).setu("seed", g::seed());
  if (SCN[s].needs_file) c.sets("file", tmpdir() + "/vf-c20-g");
  return c;
}

RegisterProp p_C20({"C20",
                    "fault enumeration: scenario (create, window, permutation object, every multiplication route incl. squaring and the "
                    "multi-core front end where built, every elimination route, PLE/PLUQ, three inversions, solve, kernel, four TRSMs, "
                    "transposition incl. into / from a window with excess bits, copy/submatrix/concat/stack/add/extract, permutation "
                    "applications, PNG write/read, JCF read, string constructor, DJB compile with > 64 operations, library re-initialisation, 4-row operands with 4200 / 33000 columns, 70-198 and 1031 "
                    "simultaneously live headers) x operand sizes "
                    "(3 fixed variants quick / 4 thorough + generated sizes); for each instance the allocation requests are counted in "
                    "a forked child started from an empty block cache and then EVERY request index i is failed in a fresh child; "
                    "required fate: SIGABRT with a diagnostic on stderr and no sanitizer report. evaluations = injected faults; "
                    "non-trivial = instances with >= 2 allocation requests; distinct by (scenario, sizes)",
                    gen_C20, exec_C20, enum_C20});

}  // namespace
