// A case ("recipe") is an ordered key=value list.  It is the unit of generation, execution, hashing,
// shrinking and replay: exec functions see nothing but the Case, so a replay file reproduces exactly.
#pragma once
#include <cstdint>
#include <cstdlib>
#include <map>
#include <sstream>
#include <stdexcept>
#include <string>
#include <vector>

struct Case {
  std::vector<std::pair<std::string, std::string>> kv;

  Case &set(const std::string &k, long long v) { return sets(k, std::to_string(v)); }
  Case &setu(const std::string &k, uint64_t v) {
    char b[32];
    snprintf(b, sizeof b, "0x%llx", (unsigned long long)v);
    return sets(k, b);
  }
  Case &sets(const std::string &k, const std::string &v) {
    for (auto &p : kv)
      if (p.first == k) {
        p.second = v;
        return *this;
      }
    kv.emplace_back(k, v);
    return *this;
  }
  bool has(const std::string &k) const {
    for (auto &p : kv)
      if (p.first == k) return true;
    return false;
  }
  const std::string &s(const std::string &k) const {
    for (auto &p : kv)
      if (p.first == k) return p.second;
    throw std::runtime_error("case: missing key " + k);
  }
  std::string s(const std::string &k, const std::string &dflt) const { return has(k) ? s(k) : dflt; }
  long long i(const std::string &k) const { return strtoll(s(k).c_str(), nullptr, 0); }
  long long i(const std::string &k, long long dflt) const { return has(k) ? i(k) : dflt; }
  uint64_t u(const std::string &k) const { return strtoull(s(k).c_str(), nullptr, 0); }
  uint64_t u(const std::string &k, uint64_t dflt) const { return has(k) ? u(k) : dflt; }

  // sub-case: all keys starting with prefix, prefix stripped
  Case sub(const std::string &prefix) const {
    Case o;
    for (auto &p : kv)
      if (p.first.compare(0, prefix.size(), prefix) == 0) o.kv.emplace_back(p.first.substr(prefix.size()), p.second);
    return o;
  }
  void add_sub(const std::string &prefix, const Case &c) {
    for (auto &p : c.kv) kv.emplace_back(prefix + p.first, p.second);
  }
  std::string str() const {
    std::string o;
    for (auto &p : kv) {
      if (!o.empty()) o += ' ';
      o += p.first + "=" + p.second;
    }
    return o;
  }
  static Case parse(const std::string &line) {
    Case c;
    std::istringstream is(line);
    std::string tok;
    while (is >> tok) {
      if (tok[0] == '#') break;
      auto e = tok.find('=');
      if (e == std::string::npos) continue;
      c.kv.emplace_back(tok.substr(0, e), tok.substr(e + 1));
    }
    return c;
  }
  uint64_t hash() const {
    uint64_t h = 0xcbf29ce484222325ull;
    for (char ch : str()) {
      h ^= (unsigned char)ch;
      h *= 0x100000001b3ull;
    }
    return h;
  }
};
