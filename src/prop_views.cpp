// C09: operations on a window behave exactly as on a standalone copy of the viewed block
#include "gen.hpp"

static bool is_place_key(const std::string &k) {
  static const char *suf[] = {".view", ".top", ".bot", ".lw", ".rw", ".slack", ".fill", ".fseed"};
  for (auto s : suf) {
    size_t n = strlen(s);
    if (k.size() > n && k.compare(k.size() - n, n, s) == 0) return true;
  }
  return false;
}

Case strip_views(const Case &c) {
  Case o;
  for (auto &p : c.kv)
    if (!is_place_key(p.first)) o.kv.push_back(p);
  return o;
}

static Case gen_C09(const GenCtx &ctx) {
  std::vector<std::pair<int, const Op *>> w;
  for (auto &o : ops())
    if (o.views_ok && o.gen && o.weight > 0) {
      // weight per generator: families with many entry points get more
      int wt = o.weight;
      std::string p = o.prop;
      if (p == "C01" || p == "C13" || p == "C08") wt *= 2;
      w.push_back({wt, &o});
    }
  const Op *o = g::wpick(w);
  Case c;
  c.sets("prop", "C09");
  GenCtx sub = ctx;
  o->gen(sub, c, 70);
  // The *_russian building blocks are only ever reached through wrappers that hand them operands on an even
  // word offset (_mzd_ple copies into an aligned matrix, mzd_trtri_upper keeps its windows on even words); an odd
  // word offset is outside their domain, so it is not generated for them.
  even_offsets_for_building_blocks(c);
  return c;
}

static Verdict exec_C09(const Case &c) {
  Verdict vv = exec_op(c);
  bool hasview = false;
  for (auto &l : vv.labels)
    if (l == "view") hasview = true;
  if (!hasview) {
    // no operand is a window: nothing to compare
    vv.nontrivial = false;
    vv.labels.push_back("no-view-generated");
    if (!vv.ok) {
      // failure of the base operation on owned operands is another property's business
      Verdict r;
      r.labels = vv.labels;
      r.labels.push_back("owned-op-fails(other-property)");
      return r;
    }
    return vv;
  }
  Verdict vo = exec_op(strip_views(c));
  Verdict r;
  r.labels = vv.labels;
  r.outhash = vv.outhash;
  if (!vo.ok) {
    // the operation is wrong already on standalone copies: not a statement about views
    r.labels.push_back("owned-op-fails(other-property)");
    return r;
  }
  if (!vv.ok)
    r.fail("on windows: " + vv.msg + " (the same call on standalone copies is correct)");
  else if (vv.outhash != vo.outhash)
    r.fail("results on windows differ from the results on standalone copies of the viewed blocks");
  bool odd = false, excess = false;
  for (auto &l : vv.labels) {
    if (l == "view-odd-word-offset") odd = true;
    if (l == "view-excess-bits") excess = true;
  }
  r.nontrivial = odd || excess;
  return r;
}

static RegisterProp p_C09({"C09",
                           "random: any catalogue operation that takes matrices (multiplication routes, echelon forms, PLE/PLUQ, TRSM, "
                           "inversion, solve, kernel, add/transpose/copy/submatrix/concat/stack/extract, row/column operations, "
                           "permutations, observers) with each matrix operand independently owned or a window (0-2 extra rows above/below, "
                           "0-3 words to the left so that odd word offsets occur, 0-2 words + 0-63 slack bits to the right; a quarter of them "
                           "nested: a window of a window whose offsets accumulate) into a parent "
                           "filled with junk / ones / zeros; oracle = three-way: model result, the same call on standalone owned copies "
                           "(equal output digest), every bit of every parent outside the view identical to its snapshot, read-only "
                           "operands bit-identical; non-trivial iff >= 1 operand is a window at an odd word offset or with excess bits "
                           "in its last word; distinct by recipe hash",
                           gen_C09, exec_C09, nullptr});
