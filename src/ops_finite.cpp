// C19: Gray code tables and word-level bit kernels (finite domains), plus the model's self-consistency
#include "gen.hpp"
using namespace model;

// ------------------------------------------------------------------ code book, exhaustive per k
static Verdict exec_codebook(const Case &c) {
  Verdict v;
  int k = (int)c.i("k");
  int N = 1 << k;
  std::vector<char> seen(N, 0);
  std::vector<int> ord(N), inc(N);
  m4ri_build_code(ord.data(), inc.data(), k);
  for (int i = 0; i < N && v.ok; i++) {
    int o = vf_codebook_ord(k, i);
    if (o < 0 || o >= N || seen[o]) v.fail("code book k=" + std::to_string(k) + ": entry " + std::to_string(i) + " out of range or repeated");
    else seen[o] = 1;
    if (o != ord[i]) v.fail("m4ri_build_code disagrees with the global code book at k=" + std::to_string(k));
    if (o != m4ri_gray_code(i, k)) v.fail("m4ri_gray_code(i,k) disagrees with the code book");
    if (i > 0) {
      int d = o ^ vf_codebook_ord(k, i - 1);
      if (__builtin_popcount(d) != 1) v.fail("consecutive code book entries differ in != 1 bit at k=" + std::to_string(k) + " i=" + std::to_string(i));
      else if (vf_codebook_inc(k, i - 1) != __builtin_ctz(d)) v.fail("increment is not the index of the changed bit at k=" + std::to_string(k) + " i=" + std::to_string(i));
      if (inc[i - 1] != vf_codebook_inc(k, i - 1)) v.fail("m4ri_build_code inc disagrees with the code book");
    }
  }
  if (vf_codebook_ord(k, 0) != 0) v.fail("code book does not start at 0");
  v.subcases = N;
  v.nontrivial = true;
  v.label("codebook");
  return v;
}
static RegisterOp r_cb({"codebook_enum", "C19", 0, nullptr, exec_codebook, false});

// ------------------------------------------------------------------ masks, reversal, LSB comparison, parity basis
static Verdict exec_masks(const Case &) {
  Verdict v;
  long cnt = 0;
  for (int n = 0; n <= 64; n++) {
    u64 want = n == 0 ? ~0ull : (n == 64 ? ~0ull : ((1ull << n) - 1));
    cnt++;
    if (vf_left_bitmask(n) != want) v.fail("__M4RI_LEFT_BITMASK(" + std::to_string(n) + ") wrong");
    if (n >= 1) {
      u64 wr = n == 64 ? ~0ull : (~0ull << (64 - n));
      if (vf_right_bitmask(n) != wr) v.fail("__M4RI_RIGHT_BITMASK(" + std::to_string(n) + ") wrong");
    }
    for (int off = 0; off < 64; off++) {
      if (n < 1 || n + off > 64) continue;
      u64 wm = (n == 64 ? ~0ull : ((1ull << n) - 1)) << off;
      cnt++;
      if (vf_middle_bitmask(n, off) != wm) v.fail("__M4RI_MIDDLE_BITMASK(" + std::to_string(n) + "," + std::to_string(off) + ") wrong");
    }
  }
  v.subcases = cnt;
  v.nontrivial = true;
  v.label("masks");
  return v;
}
static RegisterOp r_mk({"masks_enum", "C19", 0, nullptr, exec_masks, false});

static int lsbi(u64 w) { return w ? __builtin_ctzll(w) : 64; }

static Verdict exec_wordkernels_enum(const Case &) {
  Verdict v;
  long cnt = 0;
  // bit reversal on the single-bit basis
  for (int b = 0; b < 64; b++) {
    cnt++;
    if (vf_swap_bits(1ull << b) != (1ull << (63 - b))) v.fail("m4ri_swap_bits does not reverse bit " + std::to_string(b));
  }
  if (vf_swap_bits(0) != 0) v.fail("m4ri_swap_bits(0) != 0");
  // LSB comparison on all (zero or single-bit) pairs
  for (int a = 0; a <= 64; a++)
    for (int b = 0; b <= 64; b++) {
      u64 wa = a == 64 ? 0 : 1ull << a, wb = b == 64 ? 0 : 1ull << b;
      cnt++;
      if ((vf_lesser_LSB(wa, wb) != 0) != (a < b)) v.fail("m4ri_lesser_LSB wrong for LSB indices " + std::to_string(a) + "," + std::to_string(b));
    }
  // parity: all 4096 single-bit buffers
  u64 buf[64];
  for (int w = 0; w < 64; w++)
    for (int b = 0; b < 64; b++) {
      memset(buf, 0, sizeof buf);
      buf[w] = 1ull << b;
      cnt++;
      if (vf_parity64(buf) != (1ull << w)) {
        v.fail("m4ri_parity64 of the buffer with only bit " + std::to_string(b) + " of word " + std::to_string(w) + " set is not bit " + std::to_string(w));
        w = 64;
        break;
      }
    }
  memset(buf, 0, sizeof buf);
  if (vf_parity64(buf) != 0) v.fail("m4ri_parity64(0) != 0");
  // spread/shrink: every single-bit `from` for a few strictly increasing position sets of every length
  for (int len = 1; len <= 16; len++)
    for (int variant = 0; variant < 4; variant++) {
      rci_t Q[16];
      int base = variant == 3 ? 5 : 0;
      for (int i = 0; i < len; i++) Q[i] = base + (variant == 0 ? i : variant == 1 ? 64 - len + i : variant == 2 ? std::min(63 - (len - 1 - i), i * 4) : i * 3);
      for (int b = 0; b < len; b++) {
        u64 sp = vf_spread_bits(1ull << b, Q, len, base);
        cnt++;
        if (sp != (1ull << (Q[b] - base))) v.fail("m4ri_spread_bits moves bit " + std::to_string(b) + " to the wrong position (length " + std::to_string(len) + ")");
        if (vf_shrink_bits(sp, Q, len, base) != (1ull << b)) v.fail("m4ri_shrink_bits is not the inverse of spread (length " + std::to_string(len) + ")");
      }
    }
  v.subcases = cnt;
  v.nontrivial = true;
  v.label("word-kernels-basis");
  return v;
}
static RegisterOp r_wk({"wordkernels_enum", "C19", 0, nullptr, exec_wordkernels_enum, false});

// ------------------------------------------------------------------ random combinations of the linear word kernels
static void gen_wordrandom(const GenCtx &, Case &c, int) {
  c.sets("op", "wordkernels_random");
  c.setu("seed", g::seed());
  c.set("len", g::rng(1, 16));
  c.set("dens", g::rng(0, 3));
}
static Verdict exec_wordrandom(const Case &c) {
  Verdict v;
  u64 s = c.u("seed");
  int len = (int)c.i("len"), dens = (int)c.i("dens");
  auto rnd = [&]() {
    u64 x = splitmix64(s);
    for (int t = 0; t < dens; t++) x &= splitmix64(s);
    return x;
  };
  u64 buf[64], want = 0;
  for (int i = 0; i < 64; i++) {
    buf[i] = rnd();
    want |= (u64)(__builtin_popcountll(buf[i]) & 1) << i;
  }
  u64 got = vf_parity64(buf);
  if (got != want) v.fail("m4ri_parity64 wrong on a random buffer");
  v.out(got);
  u64 w = rnd(), rev = 0;
  for (int b = 0; b < 64; b++)
    if ((w >> b) & 1) rev |= 1ull << (63 - b);
  if (vf_swap_bits(w) != rev) v.fail("m4ri_swap_bits wrong on a random word");
  u64 a = rnd(), b = rnd();
  if (splitmix64(s) & 1) a <<= (splitmix64(s) % 64);
  if (splitmix64(s) & 1) b <<= (splitmix64(s) % 64);
  if ((vf_lesser_LSB(a, b) != 0) != (lsbi(a) < lsbi(b))) v.fail("m4ri_lesser_LSB wrong on random words");
  // random strictly increasing Q
  rci_t Q[16];
  int base = (int)(splitmix64(s) % 40);
  int pos = 0;
  bool okq = true;
  for (int i = 0; i < len; i++) {
    int room = 64 - (len - i) - pos;
    pos += (int)(splitmix64(s) % (u64)(std::max(1, room / 2 + 1)));
    if (pos > 63) okq = false;
    Q[i] = base + pos;
    pos++;
  }
  if (okq) {
    u64 from = rnd() & ((len == 64) ? ~0ull : ((1ull << len) - 1));
    u64 sp = vf_spread_bits(from, Q, len, base), wsp = 0;
    for (int i = 0; i < len; i++)
      if ((from >> i) & 1) wsp |= 1ull << (Q[i] - base);
    if (sp != wsp) v.fail("m4ri_spread_bits wrong on random input");
    if (vf_shrink_bits(sp, Q, len, base) != from) v.fail("shrink(spread(x)) != x");
    // shrink ignores bits outside Q
    u64 noise = rnd();
    for (int i = 0; i < len; i++) noise &= ~(1ull << (Q[i] - base));
    if (vf_shrink_bits(sp | noise, Q, len, base) != from) v.fail("m4ri_shrink_bits depends on bits outside the position set");
    v.label("spread-len:" + std::to_string(len));
  }
  v.nontrivial = want != 0;
  return v;
}
static RegisterOp r_wr({"wordkernels_random", "C19", 10, gen_wordrandom, exec_wordrandom, false});

// ------------------------------------------------------------------ mzd_make_table
static void gen_maketable(const GenCtx &ctx, Case &c, int) {
  c.sets("op", "mzd_make_table");
  int k = g::rng(1, 10);
  int n = g::dim(std::max(g::cap(ctx), 200));
  int m = k + g::rng(0, 20);
  int r = g::wpick<int>({{3, g::rng(0, m - k)}, {2, m - k}, {1, std::min(m - 1, m - k + g::rng(1, k))}});
  int col = g::wpick<int>({{2, 0}, {2, g::rng(0, n - 1)}, {1, 64 * g::rng(0, (n - 1) / 64)}, {1, n - 1}});
  c.set("k", k).set("m", m).set("n", n).set("r", r).set("c", col);
  c.sets("M.pat", g::wpick<std::string>({{6, "dense"}, {1, "sp3"}, {1, "ones"}, {1, "ident"}}));
  c.setu("M.seed", g::seed());
  c.setu("T.jseed", g::seed());
  g::place(c, "M", 25);  // the elimination hands in the caller's matrix, which may be a window with foreign bits right of it
}
static Verdict exec_maketable(const Case &c) {
  Ex x(c);
  int k = (int)c.i("k"), m = (int)c.i("m"), n = (int)c.i("n"), r = (int)c.i("r"), col = (int)c.i("c");
  Mat M = build_pat(c, "M", m, n);
  int N = 1 << k;
  Mat TJ(N, n);
  fill_dense(TJ, c.u("T.jseed"));
  memset(TJ.row(0), 0, sizeof(u64) * TJ.W);  // callers guarantee a zero first row
  // words left of the home block are never touched by the routine; callers keep them zero
  int hb = col / 64;
  for (int i = 0; i < N; i++)
    for (int w = 0; w < hb; w++) TJ.row(i)[w] = 0;
  Opnd om, ot;
  x.make(om, "M", M);
  ot.create_owned(TJ);
  std::vector<rci_t> L(N, -1);
  mzd_make_table(om.M, r, col, k, ot.M, L.data());
  Mat T = ot.read();
  // L is a bijection onto the rows; L[0] == 0
  std::vector<char> seen(N, 0);
  for (int xx = 0; xx < N; xx++) {
    if (L[xx] < 0 || L[xx] >= N || seen[L[xx]]) {
      x.v.fail("lookup array L is not a permutation of the table rows");
      return x.v;
    }
    seen[L[xx]] = 1;
  }
  if (L[0] != 0) x.v.fail("L[0] != 0");
  // first table index at which a needed row is missing (rows beyond the matrix are skipped by the routine)
  int firstskip = N;
  for (int i = 1; i < N; i++)
    if (r + vf_codebook_inc(k, i - 1) >= m) {
      firstskip = i;
      break;
    }
  long checked = 0;
  for (int pat = 0; pat < N && x.v.ok; pat++) {
    if (L[pat] >= firstskip) continue;
    std::vector<u64> want(M.W, 0);
    for (int b = 0; b < k; b++)
      if ((pat >> b) & 1)
        for (int w = 0; w < M.W; w++) want[w] ^= M.row(r + b)[w];
    // only columns >= c are defined
    for (int w = 0; w < M.W; w++) {
      u64 mask = w < hb ? 0 : (w == hb ? (~0ull << (col % 64)) : ~0ull);
      want[w] &= mask;
    }
    checked++;
    const u64 *tr = T.row(L[pat]);
    for (int w = 0; w < M.W; w++)
      if (tr[w] != want[w]) {
        x.v.fail("table entry for pattern " + std::to_string(pat) + " is not the sum of the selected rows (word " + std::to_string(w) + ")");
        break;
      }
  }
  x.v.out(T.hash());
  x.ro(om, "M");
  x.wr(ot, "T");
  x.v.subcases = 0;
  x.v.label("k:" + std::to_string(k));
  if (firstskip < N) x.v.label("rows-beyond-end-skipped");
  x.v.nontrivial = checked > 1 && !M.is_zero();
  return x.v;
}
static RegisterOp r_mt({"mzd_make_table", "C19", 10, gen_maketable, exec_maketable, false});

// ------------------------------------------------------------------ _mzd_combine / _mzd_combine_N
static void gen_combn(const GenCtx &, Case &c, int) {
  c.sets("op", "_mzd_combine_n");
  c.set("N", g::rng(1, 8)).set("wide", g::wpick<int>({{4, g::rng(1, 12)}, {2, g::rng(1, 70)}})).set("phase", g::rng(0, 1));
  c.setu("seed", g::seed());
}
static Verdict exec_combn(const Case &c) {
  Verdict v;
  int N = (int)c.i("N"), wide = (int)c.i("wide"), phase = (int)c.i("phase");
  u64 s = c.u("seed");
  // all buffers share the same 16-byte phase (the kernels' documented precondition)
  std::vector<std::vector<u64>> store(N + 1, std::vector<u64>(wide + 6, 0));
  std::vector<u64 *> p(N + 1);
  for (int i = 0; i <= N; i++) {
    u64 *b = store[i].data();
    while (((uintptr_t)b % 16) != (uintptr_t)(phase ? 8 : 0)) b++;
    p[i] = b + 2;  // keep canaries on both sides (b[0..1], after the end)
    for (size_t j = 0; j < store[i].size(); j++) store[i][j] = splitmix64(s);
  }
  std::vector<std::vector<u64>> before = store;
  std::vector<u64> want(p[0], p[0] + wide);
  for (int i = 1; i <= N; i++)
    for (int j = 0; j < wide; j++) want[j] ^= p[i][j];
  std::vector<const u64 *> t(N);
  for (int i = 0; i < N; i++) t[i] = p[i + 1];
  vf_combine_n(N, p[0], (const word **)t.data(), wide);
  for (int j = 0; j < wide; j++)
    if (p[0][j] != want[j]) {
      v.fail("_mzd_combine_" + std::to_string(N) + " wrong at word " + std::to_string(j) + " of " + std::to_string(wide));
      break;
    }
  // nothing outside [0,wide) of the destination and nothing of the sources changed
  for (int i = 0; i <= N; i++)
    for (size_t j = 0; j < store[i].size(); j++) {
      u64 *q = &store[i][j];
      bool dst = i == 0 && q >= p[0] && q < p[0] + wide;
      if (!dst && *q != before[i][j]) v.fail("_mzd_combine_" + std::to_string(N) + " wrote outside its destination range");
    }
  u64 h = 0;
  for (int j = 0; j < wide; j++) h = h * 31 + p[0][j];
  v.out(h);
  v.label("combine_N:" + std::to_string(N));
  v.label(phase ? "phase:8" : "phase:0");
  v.nontrivial = wide > 0;
  return v;
}
static RegisterOp r_cn({"_mzd_combine_n", "C19", 6, gen_combn, exec_combn, false});

// ------------------------------------------------------------------ self-consistency of the reference model
static void gen_modelcheck(const GenCtx &ctx, Case &c, int) {
  c.sets("op", "model_selfcheck");
  int capv = std::min(g::cap(ctx), 150);
  int m = g::dim(capv), l = g::dim(capv), n = g::dim(capv);
  c.set("m", m).set("l", l).set("n", n);
  g::pat(c, "A", m, l);
  g::pat(c, "B", l, n);
}
static Verdict exec_modelcheck(const Case &c) {
  Verdict v;
  int m = (int)c.i("m"), l = (int)c.i("l"), n = (int)c.i("n");
  Mat A = build_pat(c, "A", m, l), B = build_pat(c, "B", l, n);
  if (rank(A) != rank(transpose(A))) v.fail("model: rank(A) != rank(A^T)");
  if (transpose(mul(A, B)) != mul(transpose(B), transpose(A))) v.fail("model: (AB)^T != B^T A^T");
  Mat R = A;
  std::vector<int> piv;
  int r = rref(R, &piv);
  Mat R2 = R;
  if (rref(R2) != r || R2 != R) v.fail("model: rref not idempotent");
  if (!is_ref_with_pivots(R, piv)) v.fail("model: rref result not in echelon form");
  if (rank(mul(A, B)) > std::min(rank(A), rank(B))) v.fail("model: rank(AB) > min(rank A, rank B)");
  // bit-by-bit product agrees with the row-wise product
  if (m <= 40 && n <= 40) {
    Mat C(m, n);
    for (int i = 0; i < m; i++)
      for (int j = 0; j < n; j++) {
        int acc = 0;
        for (int t = 0; t < l; t++) acc ^= A.get(i, t) & B.get(t, j);
        C.set(i, j, acc);
      }
    if (C != mul(A, B)) v.fail("model: row-wise product differs from the entry-wise definition");
  }
  v.label("model-selfcheck");
  v.nontrivial = !A.is_zero() && !B.is_zero();
  return v;
}
static RegisterOp r_mc({"model_selfcheck", "C19", 3, gen_modelcheck, exec_modelcheck, false});

static Case gen_C19(const GenCtx &ctx) { return gen_from_ops("C19", ctx, 0); }
static std::vector<Case> enum_C19(const GenCtx &) {
  std::vector<Case> v;
  for (int k = 1; k <= 16; k++) {
    Case c;
    c.sets("prop", "C19").sets("op", "codebook_enum").set("k", k);
    v.push_back(c);
  }
  Case a, b;
  a.sets("prop", "C19").sets("op", "masks_enum");
  b.sets("prop", "C19").sets("op", "wordkernels_enum");
  v.push_back(a);
  v.push_back(b);
  return v;
}
static RegisterProp p_C19({"C19",
                           "enumerated exhaustively: code book for k=1..16 (all 2^k entries: permutation, one-bit steps, increment = "
                           "index of the changed bit, agreement of m4ri_gray_code/m4ri_build_code), all mask lengths x offsets, bit "
                           "reversal / LSB comparison / 64x64 parity / spread+shrink on their complete single-bit bases. random: "
                           "mzd_make_table (k=1..10, any start row/column, every k-bit pattern compared with the sum of the selected "
                           "rows), random combinations for the linear word kernels, _mzd_combine_1..8 at both 16-byte phases, model "
                           "self-consistency identities. non-trivial iff inputs non-zero; distinct by recipe hash",
                           gen_C19, exec_op, enum_C19});
