// C04: triangular solves (four variants, public and underscore), C05: inversion routines
#include "gen.hpp"
using namespace model;

static const char *TRSM[] = {"mzd_trsm_upper_left", "mzd_trsm_lower_left", "mzd_trsm_upper_right", "mzd_trsm_lower_right",
                             "_mzd_trsm_upper_left", "_mzd_trsm_lower_left", "_mzd_trsm_upper_right", "_mzd_trsm_lower_right",
                             "_mzd_trsm_upper_left_russian", "_mzd_trsm_lower_left_russian"};

static void gen_trsm(const GenCtx &ctx, Case &c, int viewpct) {
  std::string r = TRSM[g::wpick<int>({{3, 0}, {3, 1}, {3, 2}, {3, 3}, {1, 4}, {1, 5}, {1, 6}, {1, 7}, {1, 8}, {1, 9}})];
  c.sets("op", r);
  int capv = g::cap(ctx, 20);
  int bs = vf_cfg_mul_blocksize();
  std::vector<int> thr = {64, 128, 192, bs, 2 * bs};
  int n = g::dim(capv, thr);
  int w = g::wpick<int>({{4, g::dim(std::min(capv, 400), {54, 64, 128})}, {1, 1}, {1, g::pick<int>({53, 54, 63, 64, 65, 127, 128, 129})}});
  c.set("n", n).set("w", w);
  if (r.find("russian") != std::string::npos) c.set("k", g::rng(0, 8));  // table parameter of the Four-Russians base case
  else c.set("cutoff", g::cutoff());
  g::tri(c, "T");
  g::place(c, "T", viewpct);
  g::pat(c, "B", n, w, false);
  g::place(c, "B", viewpct);
}

static Verdict exec_trsm(const Case &c) {
  Ex x(c);
  std::string r = c.s("op");
  int n = (int)c.i("n"), w = (int)c.i("w"), cutoff = (int)c.i("cutoff", 0);
  bool lower = r.find("lower") != std::string::npos, left = r.find("left") != std::string::npos;
  Mat T = build_tri(c, "T", n, lower);
  Mat Ttri = lower ? tri_lower_unit(T) : tri_upper_unit(T);
  Mat B0 = left ? build_pat(c, "B", n, w) : build_pat(c, "B", w, n);
  Opnd ot, ob;
  x.make(ot, "T", T);
  x.make(ob, "B", B0);
  if (r == "mzd_trsm_upper_left") mzd_trsm_upper_left(ot.M, ob.M, cutoff);
  else if (r == "mzd_trsm_lower_left") mzd_trsm_lower_left(ot.M, ob.M, cutoff);
  else if (r == "mzd_trsm_upper_right") mzd_trsm_upper_right(ot.M, ob.M, cutoff);
  else if (r == "mzd_trsm_lower_right") mzd_trsm_lower_right(ot.M, ob.M, cutoff);
  else if (r == "_mzd_trsm_upper_left") _mzd_trsm_upper_left(ot.M, ob.M, cutoff);
  else if (r == "_mzd_trsm_lower_left") _mzd_trsm_lower_left(ot.M, ob.M, cutoff);
  else if (r == "_mzd_trsm_upper_right") _mzd_trsm_upper_right(ot.M, ob.M, cutoff);
  else if (r == "_mzd_trsm_lower_right") _mzd_trsm_lower_right(ot.M, ob.M, cutoff);
  else if (r == "_mzd_trsm_upper_left_russian") _mzd_trsm_upper_left_russian(ot.M, ob.M, (int)c.i("k", 0));
  else if (r == "_mzd_trsm_lower_left_russian") _mzd_trsm_lower_left_russian(ot.M, ob.M, (int)c.i("k", 0));
  else throw std::runtime_error("bad trsm");
  Mat X = ob.read();
  Mat back = left ? mul(Ttri, X) : mul(X, Ttri);
  x.expect(back, B0, std::string(left ? "T*X" : "X*T") + " after " + r);
  x.v.out(X);
  x.ro(ot, "T");
  x.wr(ob, "B");
  int bs = vf_cfg_mul_blocksize();
  x.v.label(n <= 64 ? "n<=64" : n <= bs ? "n<=blocksize" : "n>blocksize(recursive)");
  bool junk_nz = false;
  for (int i = 0; i < n && !junk_nz; i++)
    for (int j = 0; j < n; j++)
      if ((lower ? j > i : j < i) && T.get(i, j)) {
        junk_nz = true;
        break;
      }
  if (junk_nz) x.v.label("junk-opposite-triangle");
  x.v.nontrivial = Ttri != identity(n) && !B0.is_zero();
  return x.v;
}
static RegisterOp r_t0({TRSM[0], "C04", 10, gen_trsm, exec_trsm, true});
static RegisterOp r_t1({TRSM[1], "C04", 0, nullptr, exec_trsm, true});
static RegisterOp r_t2({TRSM[2], "C04", 0, nullptr, exec_trsm, true});
static RegisterOp r_t3({TRSM[3], "C04", 0, nullptr, exec_trsm, true});
static RegisterOp r_t4({TRSM[4], "C04", 0, nullptr, exec_trsm, true});
static RegisterOp r_t5({TRSM[5], "C04", 0, nullptr, exec_trsm, true});
static RegisterOp r_t6({TRSM[6], "C04", 0, nullptr, exec_trsm, true});
static RegisterOp r_t7({TRSM[7], "C04", 0, nullptr, exec_trsm, true});
static RegisterOp r_t8({TRSM[8], "C04", 0, nullptr, exec_trsm, true});
static RegisterOp r_t9({TRSM[9], "C04", 0, nullptr, exec_trsm, true});

static Case gen_C04(const GenCtx &ctx) { return gen_from_ops("C04", ctx, 15); }
static RegisterProp p_C04({"C04",
                           "random: variant (4 public + 4 underscore) x n (<= 64 word base case, table / trtri regime, > block size "
                           "recursion) x width of B (1, 53..55, 63..65, 127..129, mixture) x unit triangular T (identity, dense, sparse, "
                           "single off-diagonal entry, all ones) with junk in the opposite triangle x cutoff; oracle = model product "
                           "T_tri*X == B0 resp. X*T_tri == B0 with T_tri the named triangle incl. unit diagonal, T bit-identical "
                           "afterwards; non-trivial iff T_tri != I and B0 != 0; distinct by recipe hash",
                           gen_C04, exec_op, nullptr});

// ------------------------------------------------------------------ C05: inversion
// every invertible matrix is Pi*L*U: complete construction without rejection
static Mat build_invertible(const Case &c, int n) {
  Case cl = c, cu = c;
  cl.sets("T.pat", c.s("L.pat", "dense")).setu("T.seed", c.u("L.seed", 1)).set("T.junk", 0);
  cu.sets("T.pat", c.s("U.pat", "dense")).setu("T.seed", c.u("U.seed", 2)).set("T.junk", 0);
  Mat L = build_tri(cl, "T", n, true), U = build_tri(cu, "T", n, false);
  Mat A = mul(L, U);
  std::vector<int> P = parse_intlist(c.s("Pi", "-"));
  rowswaps_asc(A, P);
  return A;
}

static void gen_inv(const GenCtx &ctx, Case &c, int viewpct) {
  std::string r = g::wpick<std::string>({{6, "mzd_inv_m4ri"}, {2, "mzd_invert_naive"}, {4, "mzd_trtri_upper"}, {2, "mzd_trtri_upper_russian"}});
  c.sets("op", r);
  int capv = g::cap(ctx, 20);
  int n;
  if (r == "mzd_trtri_upper" || r == "mzd_trtri_upper_russian") {
    // recursive branch when n*n >= 2*L3 (n >= 363 in the small configuration)
    long l3 = vf_cfg_l3();
    int rec = 1;
    while ((long)rec * rec < (l3 << 1)) rec++;
    std::vector<int> thr = {64, 128, 256, rec};
    n = g::dim(std::max(capv, 64), thr);
    if (r == "mzd_trtri_upper" && ctx.scale >= 400 && rec <= 800 && g::coin(1, 5)) n = rec + g::rng(0, 200);
    c.set("n", n);
    if (r == "mzd_trtri_upper_russian") {
      // four tables of k bits each are read as one word: every k with 4k <= 64 is admissible (the automatic choice stays <= 7)
      int k = g::wpick<int>({{6, g::rng(0, 8)}, {3, g::rng(9, 12)}, {1, g::rng(13, 16)}});
      if (k >= 9 && g::coin(2, 3)) n = std::max(n, 8 * k + g::rng(0, 80));  // the four-table loop runs at least twice
      c.set("n", n).set("k", k);
    }
    c.sets("U.pat", g::wpick<std::string>({{5, "dense"}, {2, "sparse"}, {1, "vsparse"}, {1, "single"}, {1, "ident"}, {1, "ones"}}));
    c.setu("U.seed", g::seed());
    g::place(c, "U", viewpct);
    return;
  }
  n = g::dim(r == "mzd_invert_naive" ? std::min(capv, 200) : capv, {64, 128, 192, 256});
  c.set("n", n).set("k", g::rng(0, 10));
  c.sets("L.pat", g::wpick<std::string>({{5, "dense"}, {2, "sparse"}, {1, "vsparse"}, {1, "ident"}}));
  c.sets("U.pat", g::wpick<std::string>({{5, "dense"}, {2, "sparse"}, {1, "vsparse"}, {1, "ident"}}));
  c.setu("L.seed", g::seed()).setu("U.seed", g::seed());
  c.sets("Pi", g::lapack_perm(n, n));
  g::place(c, "A", viewpct);
  if (r == "mzd_inv_m4ri" || r == "mzd_invert_naive") {  // both document a preallocated result matrix
    if (g::coin(1, 2)) {
      c.sets("D.dst", "given");
      c.set("D.jkind", 2);
      c.setu("D.jseed", g::seed());
      g::place(c, "D", viewpct);
    } else
      c.sets("D.dst", "null");
  }
}

static Verdict exec_inv(const Case &c) {
  Ex x(c);
  std::string r = c.s("op");
  int n = (int)c.i("n");
  if (r == "mzd_trtri_upper" || r == "mzd_trtri_upper_russian") {
    Case cu = c;
    cu.sets("T.pat", c.s("U.pat")).setu("T.seed", c.u("U.seed")).set("T.junk", 0);
    Mat U = build_tri(cu, "T", n, false);
    Opnd ou;
    x.make(ou, "U", U);
    mzd_t *ret = r == "mzd_trtri_upper" ? mzd_trtri_upper(ou.M) : mzd_trtri_upper_russian(ou.M, (int)c.i("k", 0));
    if (ret != ou.M) x.v.fail("trtri returned a different pointer");
    Mat V = ou.read();
    x.expect(mul(U, V), identity(n), "U * trtri(U)");
    if (tri_upper_unit(V) != V) x.v.fail("inverse of a unit upper triangular matrix is not unit upper triangular");
    x.v.out(V);
    x.wr(ou, "U");
    long l3 = vf_cfg_l3();
    if (r == "mzd_trtri_upper" && (long)n * n >= (l3 << 1)) x.v.label("trtri-recursive");
    if (r == "mzd_trtri_upper_russian" && c.i("k", 0) >= 9) x.v.label(n >= 8 * c.i("k", 0) ? "trtri-k>=9,two-table-rounds" : "trtri-k>=9");
    x.v.nontrivial = U != identity(n);
    return x.v;
  }
  Mat A = build_invertible(c, n);
  Opnd oa, od, fresh, oi;
  x.make(oa, "A", A);
  mzd_t *ret;
  if (r == "mzd_inv_m4ri") {
    x.make_dst(od, "D", n, n);
    ret = mzd_inv_m4ri(od.M, oa.M, (int)c.i("k", 0));
    if (od.M && ret != od.M) x.v.fail("returned pointer differs from supplied destination");
    if (!od.M) fresh.adopt(ret);
  } else {
    oi.create_owned(identity(n));
    oi.snapshot();
    x.make_dst(od, "D", n, n);
    ret = mzd_invert_naive(od.M, oa.M, oi.M);
    if (!ret) {
      x.v.fail("mzd_invert_naive returned NULL for an invertible matrix");
      return x.v;
    }
    if (od.M && ret != od.M) x.v.fail("returned pointer differs from supplied destination");
    if (!od.M) fresh.adopt(ret);
    x.ro(oi, "I");
  }
  Mat Binv = read_mzd(ret);
  x.expect(mul(A, Binv), identity(n), "A*B");
  x.expect(mul(Binv, A), identity(n), "B*A");
  x.v.out(Binv);
  x.ro(oa, "A");
  x.wr(od.M ? od : fresh, "B");
  x.v.nontrivial = A != identity(n);
  return x.v;
}
static RegisterOp r_i0({"mzd_inv_m4ri", "C05", 10, gen_inv, exec_inv, true});
static RegisterOp r_i1({"mzd_invert_naive", "C05", 0, nullptr, exec_inv, true});
static RegisterOp r_i2({"mzd_trtri_upper", "C05", 0, nullptr, exec_inv, true});
static RegisterOp r_i3({"mzd_trtri_upper_russian", "C05", 0, nullptr, exec_inv, true});

static Case gen_C05(const GenCtx &ctx) { return gen_from_ops("C05", ctx, 15); }
static RegisterProp p_C05({"C05",
                           "random: invertible A constructed as Pi*L*U in the model (generated LAPACK permutation, unit triangular "
                           "factors of generated density) - complete for invertible matrices, no rejection - x n (around multiples of 64) "
                           "x k in 0..10 x destination NULL/junk; unit upper triangular U for the triangular inversion incl. the "
                           "recursive branch (n*n >= 2*L3); oracle = model: A*B == B*A == I, A unchanged, naive inversion equal (both "
                           "are the unique inverse), U*U' == I and U' unit upper triangular; non-trivial iff input != I; distinct by recipe hash",
                           gen_C05, exec_op, nullptr});
