// C08: addition and data movement (add, transpose, copy, set_ui, submatrix, concat, stack, extract, copy_row)
#include "gen.hpp"
using namespace model;

static const std::vector<int> TR_THR = {8, 16, 32, 64, 128, 512, 768};

static void gen_dst(Case &c, const std::string &p, int viewpct, int nullpct = 40) {
  if (g::rng(0, 99) < nullpct) {
    c.sets(p + ".dst", "null");
    return;
  }
  c.sets(p + ".dst", "given");
  c.set(p + ".jkind", g::wpick<int>({{6, 2}, {2, 1}, {1, 0}}));
  c.setu(p + ".jseed", g::seed());
  g::place(c, p, viewpct);
}

// ------------------------------------------------------------------ add
static void gen_add(const GenCtx &ctx, Case &c, int viewpct) {
  c.sets("op", "mzd_add");
  int capv = g::cap(ctx);
  int m = g::dim(std::min(capv, 200));
  // every row width 1..9 words x last-word fill {1,63,64} gets explicit weight
  int n;
  if (g::coin(1, 2)) {
    int w = g::rng(1, 12);
    n = 64 * (w - 1) + g::pick<int>({1, 2, 63, 64, g::rng(1, 64)});
  } else
    n = g::dim(std::max(capv, 64 * 12));
  g::extreme_shape(ctx, m, n);
  c.set("m", m).set("n", n);
  c.set("underscore", g::coin(1, 4));
  std::string alias = g::wpick<std::string>({{4, "none"}, {2, "CeqA"}, {2, "CeqB"}, {1, "AeqB"}, {1, "all"}});
  c.sets("alias", alias);
  g::pat(c, "A", m, n);
  g::place(c, "A", viewpct);
  if (alias != "AeqB" && alias != "all") {
    g::pat(c, "B", m, n);
    g::place(c, "B", viewpct);
  }
  if (alias == "none" || alias == "AeqB") gen_dst(c, "C", viewpct, c.i("underscore") ? 0 : 40);
}

static Verdict exec_add(const Case &c) {
  Ex x(c);
  int m = (int)c.i("m"), n = (int)c.i("n");
  std::string alias = c.s("alias", "none");
  bool us = c.i("underscore", 0);
  Mat A = build_pat(c, "A", m, n);
  Mat B = (alias == "AeqB" || alias == "all") ? A : build_pat(c, "B", m, n);
  Mat want = add(A, B);
  Opnd oa, ob, oc;
  x.make(oa, "A", A);
  if (alias != "AeqB" && alias != "all") x.make(ob, "B", B);
  mzd_t *pa = oa.M, *pb = (alias == "AeqB" || alias == "all") ? oa.M : ob.M;
  mzd_t *pc = nullptr;
  if (alias == "CeqA" || alias == "all")
    pc = pa;
  else if (alias == "CeqB")
    pc = pb;
  else {
    x.make_dst(oc, "C", m, n);
    pc = oc.M;
  }
  x.v.label("alias:" + alias);
  mzd_t *r = us ? _mzd_add(pc, pa, pb) : mzd_add(pc, pa, pb);
  if (pc && r != pc) x.v.fail("returned pointer differs from supplied destination");
  Opnd fresh;
  if (!pc) fresh.adopt(r);
  Mat got = read_mzd(r);
  x.expect(got, want, "sum");
  x.v.out(got);
  // sources that are not the destination unchanged; destination's surroundings intact
  if (pc != pa) x.ro(oa, "A");
  if (pb != pa && pc != pb) x.ro(ob, "B");
  if (pc == pa) x.wr(oa, "A(dst)");
  else if (pc == pb) x.wr(ob, "B(dst)");
  else if (oc.M) x.wr(oc, "C");
  else x.wr(fresh, "C(fresh)");
  int words = (n + 63) / 64;
  x.v.label("width:" + std::string(words <= 9 ? std::to_string(words) : ">9"));
  x.v.nontrivial = !A.is_zero() && !B.is_zero();
  return x.v;
}
static RegisterOp r_add({"mzd_add", "C08", 10, gen_add, exec_add, true});

// ------------------------------------------------------------------ transpose
static std::string tr_class(int m, int n) {
  int mx = std::max(m, n);
  if (mx <= 8) return "tr<=8";
  if (mx <= 16) return "tr<=16";
  if (mx <= 32) return "tr<=32";
  if (mx < 64) return "tr<64";
  if (mx <= 512) return "tr-64blocks";
  if (mx <= 768) return "tr-(512,768]";
  return "tr>768";
}

static void gen_transpose(const GenCtx &ctx, Case &c, int viewpct) {
  c.sets("op", "mzd_transpose");
  int capv = std::max(g::cap(ctx), 70);
  int m, n;
  int cls = g::rng(0, 9);
  if (cls < 3) {  // small kernels
    int b = g::pick<int>({8, 16, 32, 63});
    m = g::rng(1, b);
    n = g::rng(1, b);
  } else if (cls < 5) {  // n x 64 / 64 x n and block multiples with tails
    m = 64 * g::rng(1, 4) + g::pick<int>({0, 0, 1, 63, g::rng(0, 63)});
    n = g::coin(1, 2) ? g::rng(1, 63) : 64 * g::rng(1, 4) + g::pick<int>({0, 1, 63, g::rng(0, 63)});
    if (g::coin(1, 2)) std::swap(m, n);
  } else if (cls < 7 && ctx.scale >= 600) {  // recursive splits incl. thin shapes
    m = g::pick<int>({513, 600, 767, 768, 769, 1030, 1100, g::rng(513, std::max(514, ctx.scale * 2))});
    n = g::pick<int>({1, 3, 63, 64, 65, 130, g::rng(1, 200), g::rng(1, ctx.scale)});
    if (g::coin(1, 2)) std::swap(m, n);
  } else {
    m = g::dim(capv, TR_THR);
    n = g::dim(capv, TR_THR);
  }
  g::extreme_shape(ctx, m, n);
  c.set("m", m).set("n", n);
  g::pat(c, "A", m, n);
  g::place(c, "A", viewpct);
  gen_dst(c, "D", viewpct);
  c.set("twice", g::coin(1, 3));
}

static Verdict exec_transpose(const Case &c) {
  Ex x(c);
  int m = (int)c.i("m"), n = (int)c.i("n");
  Mat A = build_pat(c, "A", m, n);
  Mat want = transpose(A);
  Opnd oa, od, fresh;
  x.make(oa, "A", A);
  x.make_dst(od, "D", n, m);
  mzd_t *r = mzd_transpose(od.M, oa.M);
  if (od.M && r != od.M) x.v.fail("returned pointer differs from supplied destination");
  if (!od.M) fresh.adopt(r);
  Mat got = read_mzd(r);
  x.expect(got, want, "transpose");
  x.v.out(got);
  x.ro(oa, "A");
  x.wr(od.M ? od : fresh, "DST");
  if (c.i("twice", 0)) {
    mzd_t *t2 = mzd_transpose(nullptr, r);
    Opnd o2;
    o2.adopt(t2);
    x.expect(read_mzd(t2), A, "double transpose");
    x.wr(o2, "T2");
  }
  x.v.label(tr_class(m, n));
  x.v.nontrivial = !A.is_zero();
  return x.v;
}
static RegisterOp r_tr({"mzd_transpose", "C08", 10, gen_transpose, exec_transpose, true});

// all single-entry inputs of one shape (complete basis of the linear map), optionally strided
static Verdict exec_transpose_basis(const Case &c) {
  Verdict v;
  int m = (int)c.i("m"), n = (int)c.i("n"), step = (int)c.i("step", 1), off = (int)c.i("off", 0);
  mzd_t *A = mzd_init(m, n);
  mzd_t *D = mzd_init(n, m);
  Mat E(m, n), got(n, m);
  long k = 0, cnt = 0;
  for (int i = 0; i < m && v.ok; i++)
    for (int j = 0; j < n; j++, k++) {
      if ((k + off) % step) continue;
      E.set(i, j, 1);
      vf_write_block(A, E.w.data(), E.W);
      // junk in the destination so that stale bits would show
      for (auto &w : got.w) w = 0x5555555555555555ull;
      got.mask();
      vf_write_block(D, got.w.data(), got.W);
      mzd_transpose(D, A);
      vf_read_block(D, got.w.data(), got.W);
      cnt++;
      bool good = got.get(j, i) == 1 && got.popcount() == 1 && vf_padding_or(D) == 0;
      E.set(i, j, 0);
      if (!good) {
        v.fail("transpose of the " + std::to_string(m) + "x" + std::to_string(n) + " single-entry matrix e(" +
               std::to_string(i) + "," + std::to_string(j) + ") is not e(" + std::to_string(j) + "," + std::to_string(i) + ")");
        break;
      }
    }
  mzd_free(A);
  mzd_free(D);
  v.subcases = cnt;
  v.nontrivial = true;
  v.label("basis");
  v.label(tr_class(m, n));
  return v;
}
static RegisterOp r_trb({"transpose_basis", "C08", 0, nullptr, exec_transpose_basis, false});

// ------------------------------------------------------------------ copy
static void gen_copy(const GenCtx &ctx, Case &c, int viewpct) {
  c.sets("op", "mzd_copy");
  int capv = g::cap(ctx);
  int m = g::dim(std::min(capv, 150)), n = g::dim(std::max(capv, 200));
  g::extreme_shape(ctx, m, n);
  c.set("m", m).set("n", n);
  g::pat(c, "A", m, n);
  g::place(c, "A", viewpct);
  gen_dst(c, "D", viewpct);
  if (c.s("D.dst") == "given" && g::coin(1, 3)) {
    c.set("xm", g::rng(0, 3));
    c.set("xn", g::pick<int>({0, 1, 63, 64, 65, g::rng(0, 130)}));
  }
}
static Verdict exec_copy(const Case &c) {
  Ex x(c);
  int m = (int)c.i("m"), n = (int)c.i("n"), xm = (int)c.i("xm", 0), xn = (int)c.i("xn", 0);
  Mat A = build_pat(c, "A", m, n);
  Opnd oa, od, fresh;
  x.make(oa, "A", A);
  Mat J;
  x.make_dst(od, "D", m + xm, n + xn, &J);
  mzd_t *r = mzd_copy(od.M, oa.M);
  if (od.M && r != od.M) x.v.fail("returned pointer differs from supplied destination");
  if (!od.M) fresh.adopt(r);
  Mat want = J;  // larger destination: everything outside the copied block keeps its value
  for (int i = 0; i < m; i++)
    for (int j = 0; j < n; j++) want.set(i, j, A.get(i, j));
  Mat got = read_mzd(r);
  x.expect(got, want, "copy");
  x.v.out(got);
  x.ro(oa, "A");
  x.wr(od.M ? od : fresh, "DST");
  if (xm || xn) x.v.label("larger-destination");
  x.v.nontrivial = !A.is_zero();
  return x.v;
}
static RegisterOp r_copy({"mzd_copy", "C08", 6, gen_copy, exec_copy, true});

// ------------------------------------------------------------------ set_ui
static void gen_set_ui(const GenCtx &ctx, Case &c, int viewpct) {
  c.sets("op", "mzd_set_ui");
  int capv = g::cap(ctx);
  int m = g::dim(std::min(capv, 200)), n = g::dim(std::max(capv, 200));
  c.set("m", m).set("n", n).set("value", g::rng(0, 3));
  c.sets("D.dst", "given");
  c.set("D.jkind", g::wpick<int>({{6, 2}, {2, 1}, {1, 0}}));
  c.setu("D.jseed", g::seed());
  g::place(c, "D", viewpct);
}
static Verdict exec_set_ui(const Case &c) {
  Ex x(c);
  int m = (int)c.i("m"), n = (int)c.i("n"), val = (int)c.i("value");
  Opnd od;
  x.make_dst(od, "D", m, n);
  mzd_set_ui(od.M, (unsigned)val);
  Mat want(m, n);
  if (val % 2)
    for (int i = 0; i < std::min(m, n); i++) want.set(i, i, 1);
  Mat got = od.read();
  x.expect(got, want, "set_ui");
  x.v.out(got);
  x.wr(od, "M");
  x.v.label(val % 2 ? "identity" : "zero");
  x.v.nontrivial = c.i("D.jkind", 2) != 0;
  return x.v;
}
static RegisterOp r_setui({"mzd_set_ui", "C08", 4, gen_set_ui, exec_set_ui, true});

// ------------------------------------------------------------------ submatrix
static void gen_submatrix(const GenCtx &ctx, Case &c, int viewpct) {
  c.sets("op", "mzd_submatrix");
  int capv = g::cap(ctx);
  int m = g::dim(std::min(capv, 120)), n = g::dim(std::max(capv, 260));
  g::extreme_shape(ctx, m, n);
  c.set("m", m).set("n", n);
  int lowr = g::rng(0, m - 1), highr = g::rng(lowr + 1, m);
  int cls = g::rng(0, 5);
  int lowc, highc;
  if (cls == 0) {
    lowc = 0;
    highc = n;
  } else if (cls == 1) {  // aligned start
    lowc = 64 * g::rng(0, (n - 1) / 64);
    highc = g::rng(lowc + 1, n);
  } else if (cls == 2) {  // 1x1-ish
    lowc = g::rng(0, n - 1);
    highc = lowc + 1;
  } else if (cls == 3) {  // width exactly multiple of 64 / +-1 from unaligned start
    lowc = g::rng(0, n - 1);
    int wdt = std::max(1, std::min(n - lowc, 64 * g::rng(1, 3) + g::rng(-1, 1)));
    highc = lowc + wdt;
  } else {
    lowc = g::rng(0, n - 1);
    highc = g::rng(lowc + 1, n);
  }
  c.set("lowr", lowr).set("lowc", lowc).set("highr", highr).set("highc", highc);
  g::pat(c, "A", m, n);
  g::place(c, "A", viewpct);
  gen_dst(c, "S", viewpct);
}
static Verdict exec_submatrix(const Case &c) {
  Ex x(c);
  int m = (int)c.i("m"), n = (int)c.i("n");
  int lowr = (int)c.i("lowr"), lowc = (int)c.i("lowc"), highr = (int)c.i("highr"), highc = (int)c.i("highc");
  Mat A = build_pat(c, "A", m, n);
  Mat want = submatrix(A, lowr, lowc, highr, highc);
  Opnd oa, os, fresh;
  x.make(oa, "A", A);
  x.make_dst(os, "S", highr - lowr, highc - lowc);
  mzd_t *r = mzd_submatrix(os.M, oa.M, lowr, lowc, highr, highc);
  if (os.M && r != os.M) x.v.fail("returned pointer differs from supplied destination");
  if (!os.M) fresh.adopt(r);
  Mat got = read_mzd(r);
  x.expect(got, want, "submatrix");
  x.v.out(got);
  x.ro(oa, "M");
  x.wr(os.M ? os : fresh, "S");
  x.v.label(lowc % 64 == 0 ? "sub-aligned" : "sub-unaligned");
  if (lowc % 64 && (lowc % 64) + (highc - lowc) > 64) x.v.label("sub-spill");
  x.v.nontrivial = !want.is_zero();
  return x.v;
}
static RegisterOp r_sub({"mzd_submatrix", "C08", 10, gen_submatrix, exec_submatrix, true});

// ------------------------------------------------------------------ concat / stack
static void gen_concat(const GenCtx &ctx, Case &c, int viewpct) {
  bool st = g::coin(1, 2);
  c.sets("op", st ? "mzd_stack" : "mzd_concat");
  int capv = g::cap(ctx);
  int m = g::dim(std::min(capv, 100)), n1 = g::dim(std::max(capv, 200)), x2 = st ? g::dim(std::min(capv, 100)) : g::dim(std::max(capv, 200));
  c.set("m", m).set("n", n1).set("x2", x2);
  g::pat(c, "A", m, n1);
  g::place(c, "A", viewpct);
  if (st)
    g::pat(c, "B", x2, n1);
  else
    g::pat(c, "B", m, x2);
  g::place(c, "B", viewpct);
  gen_dst(c, "C", viewpct);
}
static Verdict exec_concat(const Case &c) {
  Ex x(c);
  bool st = c.s("op") == "mzd_stack";
  int m = (int)c.i("m"), n = (int)c.i("n"), x2 = (int)c.i("x2");
  Mat A = build_pat(c, "A", m, n);
  Mat B = st ? build_pat(c, "B", x2, n) : build_pat(c, "B", m, x2);
  Mat want = st ? stack(A, B) : concat(A, B);
  Opnd oa, ob, oc, fresh;
  x.make(oa, "A", A);
  x.make(ob, "B", B);
  x.make_dst(oc, "C", want.m, want.n);
  mzd_t *r = st ? mzd_stack(oc.M, oa.M, ob.M) : mzd_concat(oc.M, oa.M, ob.M);
  if (oc.M && r != oc.M) x.v.fail("returned pointer differs from supplied destination");
  if (!oc.M) fresh.adopt(r);
  Mat got = read_mzd(r);
  x.expect(got, want, st ? "stack" : "concat");
  x.v.out(got);
  x.ro(oa, "A");
  x.ro(ob, "B");
  x.wr(oc.M ? oc : fresh, "C");
  x.v.nontrivial = !A.is_zero() && !B.is_zero();
  return x.v;
}
static RegisterOp r_concat({"mzd_concat", "C08", 8, gen_concat, exec_concat, true});
static RegisterOp r_stack({"mzd_stack", "C08", 0, nullptr, exec_concat, true});

// ------------------------------------------------------------------ extract_u / extract_l
static void gen_extract(const GenCtx &ctx, Case &c, int viewpct) {
  c.sets("op", g::coin(1, 2) ? "mzd_extract_u" : "mzd_extract_l");
  int capv = g::cap(ctx);
  int m = g::dim(std::max(capv, 200)), n = g::coin(1, 2) ? m : g::dim(std::max(capv, 200));
  c.set("m", m).set("n", n);
  g::pat(c, "A", m, n);
  g::place(c, "A", viewpct);
  gen_dst(c, "D", viewpct);
}
static Verdict exec_extract(const Case &c) {
  Ex x(c);
  bool up = c.s("op") == "mzd_extract_u";
  int m = (int)c.i("m"), n = (int)c.i("n"), k = std::min(m, n);
  Mat A = build_pat(c, "A", m, n);
  Mat want(k, k);
  for (int i = 0; i < k; i++)
    for (int j = 0; j < k; j++)
      if (up ? j >= i : j <= i) want.set(i, j, A.get(i, j));
  Opnd oa, od, fresh;
  x.make(oa, "A", A);
  x.make_dst(od, "D", k, k);
  mzd_t *r = up ? mzd_extract_u(od.M, oa.M) : mzd_extract_l(od.M, oa.M);
  if (od.M && r != od.M) x.v.fail("returned pointer differs from supplied destination");
  if (!od.M) fresh.adopt(r);
  Mat got = read_mzd(r);
  x.expect(got, want, up ? "extract_u" : "extract_l");
  x.v.out(got);
  x.ro(oa, "A");
  x.wr(od.M ? od : fresh, "D");
  x.v.nontrivial = !want.is_zero() && want != submatrix(A, 0, 0, k, k);
  return x.v;
}
static RegisterOp r_exu({"mzd_extract_u", "C08", 6, gen_extract, exec_extract, true});
static RegisterOp r_exl({"mzd_extract_l", "C08", 0, nullptr, exec_extract, true});

// ------------------------------------------------------------------ copy_row
static void gen_copy_row(const GenCtx &ctx, Case &c, int viewpct) {
  c.sets("op", "mzd_copy_row");
  int capv = g::cap(ctx);
  int ma = g::dim(std::min(capv, 40)), mb = g::dim(std::min(capv, 40));
  int na = g::dim(std::max(capv, 200));
  int nb = na + g::pick<int>({0, 0, 1, 63, 64, g::rng(0, 100)});
  c.set("ma", ma).set("mb", mb).set("na", na).set("nb", nb).set("i", g::rng(0, mb - 1)).set("j", g::rng(0, ma - 1));
  g::pat(c, "A", ma, na);
  g::place(c, "A", viewpct);
  c.sets("B.dst", "given");
  c.set("B.jkind", 2);
  c.setu("B.jseed", g::seed());
  g::place(c, "B", viewpct);
}
static Verdict exec_copy_row(const Case &c) {
  Ex x(c);
  int ma = (int)c.i("ma"), mb = (int)c.i("mb"), na = (int)c.i("na"), nb = (int)c.i("nb"), i = (int)c.i("i"), j = (int)c.i("j");
  Mat A = build_pat(c, "A", ma, na);
  Opnd oa, ob;
  x.make(oa, "A", A);
  Mat J;
  x.make_dst(ob, "B", mb, nb, &J);
  mzd_copy_row(ob.M, i, oa.M, j);
  Mat want = J;
  for (int t = 0; t < na; t++) want.set(i, t, A.get(j, t));
  Mat got = ob.read();
  x.expect(got, want, "copy_row");
  x.v.out(got);
  x.ro(oa, "A");
  x.wr(ob, "B");
  x.v.nontrivial = true;
  return x.v;
}
static RegisterOp r_cprow({"mzd_copy_row", "C08", 3, gen_copy_row, exec_copy_row, true});

// ------------------------------------------------------------------ property C08
static std::vector<const Op *> ops_of(const char *prop) {
  std::vector<const Op *> v;
  for (auto &o : ops())
    if (std::string(o.prop) == prop && o.gen && o.weight > 0) v.push_back(&o);
  return v;
}

Case gen_from_ops(const char *prop, const GenCtx &ctx, int viewpct) {
  auto v = ops_of(prop);
  std::vector<std::pair<int, const Op *>> w;
  for (auto o : v) w.push_back({o->weight, o});
  const Op *o = g::wpick(w);
  Case c;
  c.sets("prop", prop);
  o->gen(ctx, c, o->views_ok ? viewpct : 0);
  even_offsets_for_building_blocks(c);
  return c;
}

// The *_russian building blocks are only ever reached through wrappers that hand them operands on an even word
// offset (_mzd_ple copies into an aligned matrix, mzd_trtri_upper keeps its windows on even words); an odd word
// offset is outside their domain, so it is not generated for them.
void even_offsets_for_building_blocks(Case &c) {
  if (c.s("op", "").find("russian") == std::string::npos) return;
  for (auto &kv : c.kv)
    if (kv.first.size() > 3 && kv.first.compare(kv.first.size() - 3, 3, ".lw") == 0)
      kv.second = std::to_string(atoi(kv.second.c_str()) & ~1);
}

// the semantic checks use owned operands for most cases and windows for a share of them (windows in depth: C09)
static Case gen_C08(const GenCtx &ctx) { return gen_from_ops("C08", ctx, 20); }

static std::vector<Case> enum_C08(const GenCtx &ctx) {
  std::vector<Case> v;
  auto add = [&](int m, int n, int step) {
    Case c;
    c.sets("prop", "C08").sets("op", "transpose_basis").set("m", m).set("n", n).set("step", step);
    v.push_back(c);
  };
  // every shape served by the small-matrix kernels, on a complete single-entry basis
  int lim = ctx.tier ? 63 : 32;
  for (int m = 1; m <= lim; m++)
    for (int n = 1; n <= lim; n++) add(m, n, 1);
  // one shape per larger size class (complete basis where affordable, strided otherwise)
  add(64, 17, 1);
  add(17, 64, 1);
  add(64, 64, 1);
  add(130, 70, 1);
  add(65, 200, 1);
  add(192, 64, 1);
  add(1030, 3, 1);
  add(3, 1030, 1);
  add(520, 20, 1);
  add(600, 600, ctx.tier ? 3 : 37);
  add(770, 130, ctx.tier ? 3 : 29);
  add(100, 900, ctx.tier ? 3 : 29);
  return v;
}

static RegisterProp p_C08({"C08",
                           "random: op x shape mixture (every row width 1..12 words, every transpose size class, aligned/"
                           "unaligned sub-matrix offsets) x pattern x aliasing x destination NULL/junk; non-trivial iff the "
                           "sources and the result are non-zero; distinct by recipe hash. enumerated: all single-entry inputs "
                           "(complete basis of the linear map) for every transpose shape <= 32x32 (quick) / < 64x64 (thorough) "
                           "and one shape per larger size class",
                           gen_C08, exec_op, enum_C08});
