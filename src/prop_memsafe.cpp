// C11: memory safety.  (1) every catalogue case, biased to windows at 8-mod-16 row starts, executed in a
// build where any ASan/UBSan report is fatal (the process death is the verdict, taken from the journal by the
// driver) and with the allocator balance checked per case; (2) calls to the checked public wrappers with
// incompatible dimensions must end in the library's error handler before any operand is touched.
#include "gen.hpp"
#include <signal.h>
#include <sys/wait.h>
#include <unistd.h>
using namespace model;

namespace {

// ------------------------------------------------------------------ wrapper family
struct Bad {
  const char *name;
  int nops;  // number of matrix operands
};
static const Bad BAD[] = {
    {"mzd_mul:inner", 2}, {"mzd_mul:C", 3}, {"mzd_mul:cutoff<0", 2}, {"mzd_addmul:cutoff<0", 3}, {"mzd_addmul:inner", 3}, {"mzd_addmul:C", 3},
    {"mzd_mul_m4rm:inner", 2}, {"mzd_mul_m4rm:C", 3}, {"mzd_addmul_m4rm:inner", 3}, {"mzd_addmul_m4rm:C", 3},
    {"mzd_mul_naive:C", 3}, {"mzd_addmul_naive:C", 3}, {"mzd_add:AB", 2}, {"mzd_add:C", 3}, {"mzd_transpose:DST", 2},
    {"mzd_copy:small", 2}, {"mzd_concat:rows", 2}, {"mzd_concat:C", 3}, {"mzd_stack:cols", 2}, {"mzd_stack:C", 3},
    {"mzd_submatrix:S", 2}, {"mzd_trsm_upper_left:dims", 2}, {"mzd_trsm_upper_left:square", 2},
    {"mzd_trsm_lower_left:dims", 2}, {"mzd_trsm_lower_left:square", 2}, {"mzd_trsm_upper_right:dims", 2},
    {"mzd_trsm_upper_right:square", 2}, {"mzd_trsm_lower_right:dims", 2}, {"mzd_trsm_lower_right:square", 2},
    {"mzd_ple:P", 1}, {"mzd_ple:Q", 1}, {"mzd_pluq:P", 1}, {"mzd_pluq:Q", 1}, {"mzd_solve_left:rows", 2},
    {"mzd_solve_left:fewrows", 2}, {"mzd_pluq_solve_left:P", 2}, {"mzd_pluq_solve_left:Q", 2}, {"mzd_pluq_solve_left:rows", 2}, {"mzp_copy:small", 0},
};
static const int NBAD = sizeof(BAD) / sizeof(BAD[0]);

static std::vector<mzd_t *> g_ops;
static std::vector<std::vector<u64>> g_snaps;
static int g_pipe = -1;

static void abort_handler(int) {
  // compare every operand with its snapshot (raw words) and report
  char verdict = 'U';
  for (size_t i = 0; i < g_ops.size(); i++) {
    mzd_t *M = g_ops[i];
    size_t n = (size_t)vf_nrows(M) * vf_rowstride(M);
    const u64 *d = vf_data(M);
    for (size_t j = 0; j < n && d; j++)
      if (d[j] != g_snaps[i][j]) verdict = 'T';
  }
  if (write(g_pipe, &verdict, 1) < 0) _exit(5);
  _exit(42);
}

static mzd_t *op(int r, int c, u64 seed) {
  Mat A(r, c);
  fill_dense(A, seed);
  mzd_t *M = make_mzd(A);
  g_ops.push_back(M);
  std::vector<u64> s((size_t)r * vf_rowstride(M));
  vf_read_raw(M, s.data());
  g_snaps.push_back(s);
  return M;
}

static void call_bad(const std::string &n, int a, int b, int c, int d) {
  // a,b,c: consistent dimensions; d != 0: the deliberate mismatch (added to one dimension)
  u64 s = 77;
  if (n == "mzd_mul:inner") mzd_mul(nullptr, op(a, b, s), op(b + d, c, s + 1), 0);
  else if (n == "mzd_mul:C") mzd_mul(op(a, c + d, s + 2), op(a, b, s), op(b, c, s + 1), 0);
  else if (n == "mzd_mul:cutoff<0") mzd_mul(nullptr, op(a, b, s), op(b, c, s + 1), -1 - std::abs(d));
  else if (n == "mzd_addmul:cutoff<0") mzd_addmul(op(a, c, s + 2), op(a, b, s), op(b, c, s + 1), -1 - std::abs(d));
  else if (n == "mzd_addmul:inner") mzd_addmul(op(a, c, s + 2), op(a, b, s), op(b + d, c, s + 1), 0);
  else if (n == "mzd_addmul:C") mzd_addmul(op(a + d, c, s + 2), op(a, b, s), op(b, c, s + 1), 0);
  else if (n == "mzd_mul_m4rm:inner") mzd_mul_m4rm(nullptr, op(a, b, s), op(b + d, c, s + 1), 0);
  else if (n == "mzd_mul_m4rm:C") mzd_mul_m4rm(op(a + d, c, s + 2), op(a, b, s), op(b, c, s + 1), 0);
  else if (n == "mzd_addmul_m4rm:inner") mzd_addmul_m4rm(op(a, c, s + 2), op(a, b, s), op(b + d, c, s + 1), 0);
  else if (n == "mzd_addmul_m4rm:C") mzd_addmul_m4rm(op(a, c + d, s + 2), op(a, b, s), op(b, c, s + 1), 0);
  else if (n == "mzd_mul_naive:C") mzd_mul_naive(op(a + d, c, s + 2), op(a, b, s), op(b, c, s + 1));
  else if (n == "mzd_addmul_naive:C") mzd_addmul_naive(op(a, c + d, s + 2), op(a, b, s), op(b, c, s + 1));
  else if (n == "mzd_add:AB") mzd_add(nullptr, op(a, b, s), op(a + d, b, s + 1));
  else if (n == "mzd_add:C") mzd_add(op(a, b + d, s + 2), op(a, b, s), op(a, b, s + 1));
  else if (n == "mzd_transpose:DST") mzd_transpose(op(b + d, a, s + 1), op(a, b, s));
  else if (n == "mzd_copy:small") mzd_copy(op(std::max(1, a - std::abs(d)), b, s + 1), op(a + 1, b, s));
  else if (n == "mzd_concat:rows") mzd_concat(nullptr, op(a, b, s), op(a + d, c, s + 1));
  else if (n == "mzd_concat:C") mzd_concat(op(a, b + c + d, s + 2), op(a, b, s), op(a, c, s + 1));
  else if (n == "mzd_stack:cols") mzd_stack(nullptr, op(a, b, s), op(c, b + d, s + 1));
  else if (n == "mzd_stack:C") mzd_stack(op(a + c + d, b, s + 2), op(a, b, s), op(c, b, s + 1));
  else if (n == "mzd_submatrix:S") mzd_submatrix(op(std::max(1, a - 1 - std::abs(d) % a), b, s + 1), op(a + 1, b, s), 0, 0, a + 1, b);
  else if (n.find("mzd_trsm_") == 0) {
    bool dims = n.find(":dims") != std::string::npos;
    bool left = n.find("left") != std::string::npos;
    mzd_t *T = dims ? op(a, a, s) : op(a, a + d, s);
    mzd_t *B = left ? op(dims ? a + d : a, c, s + 1) : op(c, dims ? a + d : a, s + 1);
    if (n.find("upper_left") != std::string::npos) mzd_trsm_upper_left(T, B, 0);
    else if (n.find("lower_left") != std::string::npos) mzd_trsm_lower_left(T, B, 0);
    else if (n.find("upper_right") != std::string::npos) mzd_trsm_upper_right(T, B, 0);
    else mzd_trsm_lower_right(T, B, 0);
  } else if (n == "mzd_ple:P" || n == "mzd_pluq:P" || n == "mzd_ple:Q" || n == "mzd_pluq:Q") {
    bool p = n.back() == 'P';
    mzp_t *P = mzp_init(std::max(1, a + (p ? d : 0))), *Q = mzp_init(std::max(1, b + (p ? 0 : d)));
    if (n.find("ple") != std::string::npos) mzd_ple(op(a, b, s), P, Q, 0);
    else mzd_pluq(op(a, b, s), P, Q, 0);
  } else if (n == "mzd_solve_left:rows") mzd_solve_left(op(a, b, s), op(std::max(a, b) + std::abs(d), c, s + 1), 0, 1);
  else if (n == "mzd_solve_left:fewrows") mzd_solve_left(op(a, b + std::abs(d), s), op(b, c, s + 1), 0, 1);
  else if (n == "mzd_pluq_solve_left:P") {
    mzp_t *P = mzp_init(std::max(1, a + d)), *Q = mzp_init(b);
    mzd_pluq_solve_left(op(a, b, s), 0, P, Q, op(std::max(a, b), c, s + 1), 0, 1);
  } else if (n == "mzd_pluq_solve_left:Q") {
    mzp_t *P = mzp_init(a), *Q = mzp_init(std::max(1, b + d));
    mzd_pluq_solve_left(op(a, b, s), 0, P, Q, op(std::max(a, b), c, s + 1), 0, 1);
  } else if (n == "mzd_pluq_solve_left:rows") {
    mzp_t *P = mzp_init(a), *Q = mzp_init(b + std::abs(d));
    mzd_pluq_solve_left(op(a, b + std::abs(d), s), 0, P, Q, op(b, c, s + 1), 0, 1);
  } else if (n == "mzp_copy:small") {
    mzp_t *P = mzp_init(std::max(1, a - std::abs(d) % a)), *Q = mzp_init(a + 1);
    mzp_copy(P, Q);
  } else
    throw std::runtime_error("unknown wrapper case " + n);
}

static Verdict exec_badcall(const Case &c) {
  Verdict v;
  std::string n = c.s("which");
  int a = (int)c.i("a"), b = (int)c.i("b"), cc = (int)c.i("c"), d = (int)c.i("d");
  int ep[2], rp[2];
  if (pipe(ep) || pipe(rp)) throw std::runtime_error("pipe");
  fflush(stdout);
  fflush(stderr);
  pid_t pid = fork();
  if (pid == 0) {
    close(ep[0]);
    close(rp[0]);
    dup2(ep[1], 2);
    g_pipe = rp[1];
    alarm(60);
    g_ops.clear();
    g_snaps.clear();
    signal(SIGABRT, abort_handler);
    call_bad(n, a, b, cc, d);
    _exit(3);  // the wrapper returned
  }
  close(ep[1]);
  close(rp[1]);
  std::string err;
  char buf[2048];
  ssize_t k;
  while ((k = read(ep[0], buf, sizeof buf)) > 0)
    if (err.size() < 8000) err.append(buf, (size_t)k);
  char verdict = '?';
  if (read(rp[0], &verdict, 1) != 1) verdict = '?';
  close(ep[0]);
  close(rp[0]);
  int st = 0;
  waitpid(pid, &st, 0);
  bool san = err.find("ERROR: AddressSanitizer") != std::string::npos || err.find("runtime error:") != std::string::npos;
  std::string where = n + " with an incompatible dimension (a=" + std::to_string(a) + " b=" + std::to_string(b) + " c=" + std::to_string(cc) + " d=" + std::to_string(d) + "): ";
  if (san)
    v.fail(where + "sanitizer report: " + err.substr(0, 300));
  else if (WIFEXITED(st) && WEXITSTATUS(st) == 3)
    v.fail(where + "the wrapper returned instead of terminating through the error handler");
  else if (WIFEXITED(st) && WEXITSTATUS(st) == 42) {
    if (verdict != 'U') v.fail(where + "an operand was modified before the error handler ran");
    if (err.empty()) v.fail(where + "no diagnostic on stderr");
  } else if (WIFSIGNALED(st))
    v.fail(where + "killed by signal " + std::to_string(WTERMSIG(st)));
  else
    v.fail(where + "unexpected exit status " + std::to_string(st));
  v.label("wrapper:" + n);
  v.label("bad-dimension-call");
  v.nontrivial = true;
  return v;
}

static Case gen_C11(const GenCtx &ctx) {
  Case c;
  c.sets("prop", "C11");
  // (the wrapper family forks and handles SIGABRT itself: not inside the libFuzzer process, where the catalogue part runs)
  if (g::coin(1, 12) && !g::bytes()) {
    int i = g::rng(0, NBAD - 1);
    c.sets("op", "wrapper_bad_dims").sets("which", BAD[i].name);
    c.set("a", g::dim(150, {64, 128})).set("b", g::dim(150, {64, 128})).set("c", g::dim(150, {64, 128}));
    c.set("d", g::pick<int>({1, -1, 1, 64, g::rng(1, 100), -g::rng(1, 100)}));
    // keep every dimension positive
    int mn = std::min((int)c.i("a"), std::min((int)c.i("b"), (int)c.i("c")));
    if (c.i("d") < 0 && -c.i("d") >= mn) c.set("d", 1);
    return c;
  }
  std::vector<std::pair<int, const Op *>> w;
  for (auto &o : ops())
    if (o.gen && o.weight > 0 && std::string(o.prop) != "C19" && !(g::bytes() && std::string(o.prop) == "C18"))  // C18 ops fork
      w.push_back({o.weight * (o.views_ok ? 2 : 1), &o});
  const Op *o = g::wpick(w);
  o->gen(ctx, c, o->views_ok ? 60 : 0);
  even_offsets_for_building_blocks(c);
  return c;
}

static std::vector<Case> enum_C11(const GenCtx &) {
  // every (wrapper, operand) pair once with +1 and once with -1 / unrelated size
  std::vector<Case> v;
  for (int i = 0; i < NBAD; i++)
    for (int d : {1, -1, 37}) {
      Case c;
      c.sets("prop", "C11").sets("op", "wrapper_bad_dims").sets("which", BAD[i].name).set("a", 70).set("b", 66).set("c", 130).set("d", d);
      v.push_back(c);
    }
  return v;
}

static Verdict exec_C11(const Case &c) {
  if (c.s("op") == "wrapper_bad_dims") return exec_badcall(c);
  bool wrap = vf_wrap_present();
  m4ri_mmc_cleanup();
  vf_wrap_enable(1);
  long before = vf_wrap_live();
  Verdict vv = exec_op(c);
  m4ri_mmc_cleanup();
  long after = vf_wrap_live();
  vf_wrap_enable(0);
  Verdict r;
  r.labels = vv.labels;
  r.outhash = vv.outhash;
  if (!vv.ok) r.label("oracle-fails(other-property)");  // semantic failures are not memory-safety verdicts
  if (wrap && after != before) {
    long sz[6];
    int k = vf_wrap_live_sizes(sz, 6);
    std::string s;
    for (int i = 0; i < k; i++) s += std::to_string(sz[i]) + " ";
    r.fail("the call did not release everything it allocated: " + std::to_string(after - before) + " blocks still live (sizes of live blocks: " + s + ")");
  }
  bool view = false, odd = false;
  for (auto &l : vv.labels) {
    if (l == "view") view = true;
    if (l == "view-odd-word-offset") odd = true;
  }
  r.label(wrap ? "alloc-balance-checked" : "alloc-balance-not-checked");
  r.nontrivial = view || odd || vv.nontrivial;
  return r;
}

RegisterProp p_C11({"C11",
                    "random: every catalogue operation of C01-C09/C13/C17 (multiplication, elimination, factorisation, TRSM, inversion, "
                    "solve, kernel, data movement, row/column operations, permutations, observers) with operands independently placed "
                    "as windows (odd word offsets = row starts at 8 mod 16, excess bits, last row / last word of the parent) in builds "
                    "where ANY AddressSanitizer / UndefinedBehaviorSanitizer report is fatal: the death of the process is the verdict; "
                    "in the allocation-wrapper builds the live set must return to its value before the call (thread-safe configuration: "
                    "matrix headers are heap blocks, so a leaked header counts). enumerated + random: every checked public wrapper with "
                    "one incompatible dimension per operand (+1, -1, unrelated) in a forked child that must end in m4ri_die (SIGABRT, "
                    "diagnostic on stderr) with every operand bit-identical in the SIGABRT handler. non-trivial iff a window / SIMD-relevant "
                    "placement or the operation's own rule; distinct by recipe hash",
                    gen_C11, exec_C11, enum_C11});

}  // namespace
