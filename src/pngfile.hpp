// Minimal reference PNG writer / decoder / structure-aware mutator (zlib + CRC), independent of libpng usage in m4ri.
#pragma once
#include <cstdint>
#include <cstring>
#include <string>
#include <vector>
#include <zlib.h>

namespace png {

struct Image {
  int w = 0, h = 0, depth = 1, ctype = 0, interlace = 0;
  std::vector<uint16_t> px;  // samples, row major, channels interleaved
};
struct WriteOpts {
  int filters = 0;     // 0..4 fixed filter type, 5 = cycle through all
  int level = 6;
  int idat_split = 0;  // >0: split the stream into several IDAT chunks
};

inline int channels(int ctype) { return ctype == 2 ? 3 : ctype == 4 ? 2 : ctype == 6 ? 4 : 1; }

inline void put32(std::vector<uint8_t> &b, uint32_t v) {
  b.push_back(v >> 24);
  b.push_back(v >> 16);
  b.push_back(v >> 8);
  b.push_back(v);
}
inline uint32_t get32(const uint8_t *p) { return ((uint32_t)p[0] << 24) | ((uint32_t)p[1] << 16) | ((uint32_t)p[2] << 8) | p[3]; }

inline void chunk(std::vector<uint8_t> &out, const char *type, const std::vector<uint8_t> &data) {
  put32(out, (uint32_t)data.size());
  std::vector<uint8_t> td(type, type + 4);
  td.insert(td.end(), data.begin(), data.end());
  out.insert(out.end(), td.begin(), td.end());
  put32(out, (uint32_t)crc32(0, td.data(), (uInt)td.size()));
}

static const uint8_t SIG[8] = {137, 80, 78, 71, 13, 10, 26, 10};

inline int paeth(int a, int b, int c) {
  int p = a + b - c, pa = abs(p - a), pb = abs(p - b), pc = abs(p - c);
  return (pa <= pb && pa <= pc) ? a : (pb <= pc ? b : c);
}

inline std::vector<uint8_t> pack_rows(const Image &im, size_t &rowbytes) {
  int ch = channels(im.ctype);
  size_t bits = (size_t)im.w * ch * im.depth;
  rowbytes = (bits + 7) / 8;
  std::vector<uint8_t> raw(rowbytes * im.h, 0);
  for (int i = 0; i < im.h; i++)
    for (size_t sidx = 0; sidx < (size_t)im.w * ch; sidx++) {
      uint16_t v = im.px[(size_t)i * im.w * ch + sidx];
      uint8_t *row = raw.data() + rowbytes * i;
      if (im.depth == 16) {
        row[2 * sidx] = v >> 8;
        row[2 * sidx + 1] = v & 0xff;
      } else if (im.depth == 8)
        row[sidx] = (uint8_t)v;
      else {
        size_t bit = sidx * im.depth;
        int shift = 8 - im.depth - (int)(bit % 8);
        row[bit / 8] |= (uint8_t)((v & ((1u << im.depth) - 1)) << shift);
      }
    }
  return raw;
}

inline std::vector<uint8_t> encode(const Image &im, const WriteOpts &wo) {
  std::vector<uint8_t> out(SIG, SIG + 8);
  std::vector<uint8_t> ihdr;
  put32(ihdr, im.w);
  put32(ihdr, im.h);
  ihdr.push_back(im.depth);
  ihdr.push_back(im.ctype);
  ihdr.push_back(0);
  ihdr.push_back(0);
  ihdr.push_back(im.interlace);
  chunk(out, "IHDR", ihdr);
  if (im.ctype == 3) {
    std::vector<uint8_t> pl;
    int n = im.depth <= 8 ? (1 << im.depth) : 256;
    for (int i = 0; i < n; i++) {
      uint8_t g = (uint8_t)(i * 255 / (n > 1 ? n - 1 : 1));
      pl.push_back(g);
      pl.push_back(g);
      pl.push_back(g);
    }
    chunk(out, "PLTE", pl);
  }
  size_t rowbytes;
  std::vector<uint8_t> raw = pack_rows(im, rowbytes);
  int bpp = std::max(1, channels(im.ctype) * im.depth / 8);
  std::vector<uint8_t> filt;
  std::vector<uint8_t> prev(rowbytes, 0);
  for (int i = 0; i < im.h; i++) {
    int ft = wo.filters == 5 ? i % 5 : wo.filters;
    const uint8_t *cur = raw.data() + rowbytes * i;
    filt.push_back((uint8_t)ft);
    for (size_t x = 0; x < rowbytes; x++) {
      int a = x >= (size_t)bpp ? cur[x - bpp] : 0, b = prev[x], c = x >= (size_t)bpp ? prev[x - bpp] : 0;
      int pred = ft == 0 ? 0 : ft == 1 ? a : ft == 2 ? b : ft == 3 ? (a + b) / 2 : paeth(a, b, c);
      filt.push_back((uint8_t)(cur[x] - pred));
    }
    prev.assign(cur, cur + rowbytes);
  }
  uLongf clen = compressBound((uLong)filt.size());
  std::vector<uint8_t> comp(clen);
  compress2(comp.data(), &clen, filt.data(), (uLong)filt.size(), wo.level);
  comp.resize(clen);
  if (wo.idat_split > 0 && comp.size() > 4) {
    size_t parts = (size_t)wo.idat_split + 1, per = comp.size() / parts + 1;
    for (size_t o = 0; o < comp.size(); o += per)
      chunk(out, "IDAT", std::vector<uint8_t>(comp.begin() + o, comp.begin() + std::min(comp.size(), o + per)));
  } else
    chunk(out, "IDAT", comp);
  chunk(out, "IEND", {});
  return out;
}

struct Chunk {
  size_t off, len;  // offset of the length field, data length
  char type[5];
};
inline std::vector<Chunk> parse_chunks(const std::vector<uint8_t> &b) {
  std::vector<Chunk> v;
  size_t o = 8;
  while (o + 12 <= b.size()) {
    Chunk c;
    c.off = o;
    c.len = get32(&b[o]);
    memcpy(c.type, &b[o + 4], 4);
    c.type[4] = 0;
    if (o + 12 + c.len > b.size()) break;
    v.push_back(c);
    o += 12 + c.len;
  }
  return v;
}
inline void fix_crc(std::vector<uint8_t> &b, const Chunk &c) {
  uint32_t crc = (uint32_t)crc32(0, &b[c.off + 4], (uInt)(4 + c.len));
  b[c.off + 8 + c.len] = crc >> 24;
  b[c.off + 9 + c.len] = crc >> 16;
  b[c.off + 10 + c.len] = crc >> 8;
  b[c.off + 11 + c.len] = crc;
}

inline bool decode(const std::vector<uint8_t> &b, Image &im, std::string *why) {
  auto fail = [&](const char *m) {
    if (why) *why = m;
    return false;
  };
  if (b.size() < 8 || memcmp(b.data(), SIG, 8)) return fail("bad signature");
  std::vector<Chunk> cs = parse_chunks(b);
  if (cs.empty() || strcmp(cs[0].type, "IHDR") || cs[0].len != 13) return fail("no IHDR");
  std::vector<uint8_t> z;
  bool end = false;
  for (auto &c : cs) {
    if (get32(&b[c.off + 8 + c.len]) != (uint32_t)crc32(0, &b[c.off + 4], (uInt)(4 + c.len))) return fail("bad CRC");
    if (!strcmp(c.type, "IDAT")) z.insert(z.end(), b.begin() + c.off + 8, b.begin() + c.off + 8 + c.len);
    if (!strcmp(c.type, "IEND")) end = true;
  }
  if (!end) return fail("no IEND");
  const uint8_t *h = &b[cs[0].off + 8];
  im.w = (int)get32(h);
  im.h = (int)get32(h + 4);
  im.depth = h[8];
  im.ctype = h[9];
  im.interlace = h[12];
  if (im.interlace) return fail("interlaced");
  int ch = channels(im.ctype);
  size_t rowbytes = ((size_t)im.w * ch * im.depth + 7) / 8;
  std::vector<uint8_t> filt((rowbytes + 1) * im.h);
  uLongf flen = (uLongf)filt.size();
  if (uncompress(filt.data(), &flen, z.data(), (uLong)z.size()) != Z_OK || flen != filt.size()) return fail("inflate failed");
  int bpp = std::max(1, ch * im.depth / 8);
  std::vector<uint8_t> prev(rowbytes, 0), cur(rowbytes);
  im.px.assign((size_t)im.w * im.h * ch, 0);
  for (int i = 0; i < im.h; i++) {
    const uint8_t *f = filt.data() + (rowbytes + 1) * i;
    int ft = f[0];
    if (ft > 4) return fail("bad filter");
    for (size_t x = 0; x < rowbytes; x++) {
      int a = x >= (size_t)bpp ? cur[x - bpp] : 0, bb = prev[x], c = x >= (size_t)bpp ? prev[x - bpp] : 0;
      int pred = ft == 0 ? 0 : ft == 1 ? a : ft == 2 ? bb : ft == 3 ? (a + bb) / 2 : paeth(a, bb, c);
      cur[x] = (uint8_t)(f[1 + x] + pred);
    }
    for (size_t sidx = 0; sidx < (size_t)im.w * ch; sidx++) {
      uint16_t v;
      if (im.depth == 16) v = (uint16_t)((cur[2 * sidx] << 8) | cur[2 * sidx + 1]);
      else if (im.depth == 8) v = cur[sidx];
      else {
        size_t bit = sidx * im.depth;
        int shift = 8 - im.depth - (int)(bit % 8);
        v = (cur[bit / 8] >> shift) & ((1u << im.depth) - 1);
      }
      im.px[(size_t)i * im.w * ch + sidx] = v;
    }
    prev = cur;
  }
  return true;
}

// structure-aware mutations; CRCs are kept valid unless the mutation is about the CRC
inline void mutate(std::vector<uint8_t> &b, const std::string &mut, long mpos, int mval, int field, long fval) {
  if (mut == "none") return;
  if (mut == "empty") {
    b.clear();
    return;
  }
  std::vector<Chunk> cs = parse_chunks(b);
  if (mut == "bad_sig") {
    b[(size_t)mpos % 8] ^= (uint8_t)(mval | 1);
    return;
  }
  if (mut == "truncate_byte") {
    b.resize((size_t)mpos % b.size());
    return;
  }
  if (mut == "byteflip") {
    b[8 + (size_t)mpos % (b.size() - 8)] ^= (uint8_t)(mval | 1);
    return;
  }
  if (cs.empty()) return;
  if (mut == "truncate_chunk") {
    size_t k = (size_t)mpos % (cs.size() + 1);
    b.resize(k == cs.size() ? b.size() : cs[k].off);
    if (k == cs.size()) b.resize(b.size() - 1);  // cut inside the last CRC
    return;
  }
  size_t ci = (size_t)mpos % cs.size();
  if (mut == "drop_chunk") {
    b.erase(b.begin() + cs[ci].off, b.begin() + cs[ci].off + 12 + cs[ci].len);
    return;
  }
  if (mut == "dup_chunk") {
    std::vector<uint8_t> c(b.begin() + cs[ci].off, b.begin() + cs[ci].off + 12 + cs[ci].len);
    b.insert(b.begin() + cs[ci].off, c.begin(), c.end());
    return;
  }
  if (mut == "bad_crc") {
    b[cs[ci].off + 8 + cs[ci].len + (size_t)mval % 4] ^= 0x55;
    return;
  }
  if (mut == "ihdr_field") {
    uint8_t *h = &b[cs[0].off + 8];
    long v = fval;
    if (field <= 1) {
      if (v > 20000) v = 20000;
      h[field * 4] = (uint8_t)(v >> 24);
      h[field * 4 + 1] = (uint8_t)(v >> 16);
      h[field * 4 + 2] = (uint8_t)(v >> 8);
      h[field * 4 + 3] = (uint8_t)v;
    } else
      h[8 + (field - 2) % 5] = (uint8_t)v;
    fix_crc(b, cs[0]);
    return;
  }
  // IDAT mutations
  for (auto &c : cs)
    if (!strcmp(c.type, "IDAT") && c.len > 0) {
      if (mut == "corrupt_idat") {
        b[c.off + 8 + (size_t)mpos % c.len] ^= (uint8_t)(mval | 1);
        fix_crc(b, c);
      } else if (mut == "short_idat") {
        size_t keep = c.len / 2;
        std::vector<uint8_t> nb(b.begin(), b.begin() + c.off);
        std::vector<uint8_t> data(b.begin() + c.off + 8, b.begin() + c.off + 8 + keep);
        chunk(nb, "IDAT", data);
        nb.insert(nb.end(), b.begin() + c.off + 12 + c.len, b.end());
        b = nb;
      }
      return;
    }
}

}  // namespace png
