// C14: allocation histories (stateful, model-based).  A case is an explicit command list drawn from
// rapidcheck generators; the interpreter keeps a model of the live set and checks the invariants after
// every command.
#include "gen.hpp"
#include <map>
using namespace model;

struct Cmd {
  char k;
  int a, b, c, d;
};

static std::string enc(const std::vector<Cmd> &v) {
  std::string s;
  for (auto &x : v) {
    if (!s.empty()) s += ';';
    s += x.k;
    s += '.' + std::to_string(x.a) + '.' + std::to_string(x.b) + '.' + std::to_string(x.c) + '.' + std::to_string(x.d);
  }
  return s.empty() ? "-" : s;
}
static std::vector<Cmd> dec(const std::string &s) {
  std::vector<Cmd> v;
  if (s == "-" || s.empty()) return v;
  size_t i = 0;
  while (i < s.size()) {
    size_t j = s.find(';', i);
    if (j == std::string::npos) j = s.size();
    std::string t = s.substr(i, j - i);
    Cmd c{t[0], 0, 0, 0, 0};
    sscanf(t.c_str() + 1, ".%d.%d.%d.%d", &c.a, &c.b, &c.c, &c.d);
    v.push_back(c);
    i = j + 1;
  }
  return v;
}

// size pools: few distinct sizes so that exact-size block-cache hits occur, sizes above the cache threshold, zero area
static const int ROWS[] = {1, 2, 7, 33, 64, 100, 129, 300};
static const int COLS[] = {1, 63, 64, 65, 128, 200, 1000, 2100};

static Case gen_C14(const GenCtx &ctx) {
  Case c;
  c.sets("prop", "C14").sets("op", "alloc_history");
  int maxlen = ctx.tier ? 400 : 160;
  int L = g::rng(1, std::max(4, maxlen * (g::cursize() + 10) / 110));
  std::vector<Cmd> v;
  for (int i = 0; i < L; i++) {
    char k = g::wpick<char>({{30, 'I'}, {14, 'W'}, {3, 'w'}, {10, 'F'}, {28, 'X'}, {3, 'B'}, {5, 'E'}, {6, 'O'}, {2, 'R'}, {2, 'Z'}, {2, 'V'}});
    Cmd x{k, 0, 0, 0, 0};
    switch (k) {
    case 'I': x.a = g::rng(0, 7); x.b = g::rng(0, 7); break;                         // init ROWS[a] x COLS[b]
    case 'Z': x.a = g::rng(0, 2); x.b = g::rng(0, 7); break;                         // zero-area init
    case 'W': x.a = g::rng(0, 999); x.b = g::rng(0, 999); x.c = g::rng(0, 999); x.d = g::rng(0, 999); break;
    case 'w': x.a = g::rng(0, 999); x.b = g::rng(0, 999); x.c = g::rng(0, 999); x.d = g::rng(0, 2); break;  // zero-area window
    case 'F': x.a = g::rng(0, 999); x.b = g::rng(0, 99999); break;                   // fill live[a] with pattern seed b
    case 'X': x.a = g::rng(0, 999); break;                                            // free live[a]
    case 'B': x.a = g::rng(0, 999); x.b = g::wpick<int>({{3, g::rng(1, 70)}, {2, g::rng(60, 200)}, {1, g::rng(900, 1150)}}); break;
    case 'E': x.a = g::rng(0, 2); break;                                              // free all windows (order a)
    case 'O': x.a = g::rng(0, 3); x.b = g::rng(0, 7); x.c = g::rng(0, 7); break;     // library op allocating temporaries
    case 'R': break;                                                                  // m4ri_fini + m4ri_init
    case 'V': x.a = g::rng(0, 7); x.b = g::rng(17, 24); break;                        // create+free > 16 distinct sizes (eviction)
    }
    v.push_back(x);
  }
  c.sets("h", enc(v));
  c.set("fill", g::pick<int>({-1, 0xA5, 0xFF, 0x01}));
  return c;
}

struct Live {
  mzd_t *M;
  int parent;  // index in pool of the parent (owned) or -1
  int lowr, lowc;
  Mat contents;  // owned only
  int nwin = 0;  // number of live windows into it
  bool alive = true;
};

static Verdict exec_C14(const Case &c) {
  Verdict v;
  std::vector<Cmd> cmds = dec(c.s("h"));
  std::vector<Live> pool;
  std::vector<int> live;          // indices into pool
  std::map<const void *, int> headers;  // live header addresses
  bool wrap = vf_wrap_present();
  m4ri_fini();  // start every history from an empty block cache
  m4ri_init();
  vf_wrap_set_fill((int)c.i("fill", -1), (int)c.i("fill", -1) >= 0 ? 0x5A : -1);
  vf_wrap_enable(1);
  long live0 = vf_wrap_live();
  int steps = 0, evict_sizes = 0, reuse = 0, secondblock = 0, beyond16 = 0;
  std::set<long> sizes_freed;
  std::set<std::pair<int, int>> freed_shapes;

  auto fail = [&](const std::string &m) { v.fail("step " + std::to_string(steps) + ": " + m); };

  auto view_of = [&](const Live &w) {
    const Live &p = pool[w.parent];
    return submatrix(p.contents, w.lowr, w.lowc, w.lowr + vf_nrows(w.M), w.lowc + vf_ncols(w.M));
  };
  auto check_contents = [&](int idx) {
    Live &l = pool[idx];
    if (!l.alive) return;
    if (vf_nrows(l.M) <= 0 || vf_ncols(l.M) <= 0) return;  // zero-area: nothing to compare
    Mat got = read_mzd(l.M);
    Mat want = l.parent < 0 ? l.contents : view_of(l);
    if (got != want) fail("a live matrix no longer holds the contents last written to it (canary)");
    if (l.parent < 0 && vf_nrows(l.M) && vf_ncols(l.M) && vf_padding_or(l.M)) fail("owned matrix has non-zero padding");
  };
  auto add_header = [&](mzd_t *M, int idx) {
    if (!headers.insert({(const void *)M, idx}).second) fail("a new matrix header has the address of a live header");
  };
  auto check_disjoint = [&](int idx) {
    // data interval of the new owned matrix is disjoint from every live owned matrix
    Live &n = pool[idx];
    if (!vf_data(n.M)) return;
    uintptr_t a0 = (uintptr_t)vf_data(n.M), a1 = a0 + (size_t)vf_nrows(n.M) * vf_rowstride(n.M) * 8;
    for (int j : live) {
      if (j == idx) continue;
      Live &o = pool[j];
      if (o.parent >= 0 || !vf_data(o.M)) continue;
      uintptr_t b0 = (uintptr_t)vf_data(o.M), b1 = b0 + (size_t)vf_nrows(o.M) * vf_rowstride(o.M) * 8;
      if (a0 < b1 && b0 < a1) fail("a new matrix shares storage with a live matrix");
    }
  };
  auto new_owned = [&](int r, int cc) {
    long before = vf_wrap_allocs();
    mzd_t *M = mzd_init(r, cc);
    long served = vf_wrap_allocs() - before;
    Live l;
    l.M = M;
    l.parent = -1;
    l.contents = Mat(r, cc);
    pool.push_back(l);
    int idx = (int)pool.size() - 1;
    live.push_back(idx);
    add_header(M, idx);
    if (vf_nrows(M) != r || vf_ncols(M) != cc) fail("mzd_init returned wrong dimensions");
    if (r && cc) {
      // entirely zero over nrows x rowstride words
      std::vector<u64> raw((size_t)r * vf_rowstride(M));
      vf_read_raw(M, raw.data());
      for (u64 w : raw)
        if (w) {
          fail("a newly created " + std::to_string(r) + "x" + std::to_string(cc) + " matrix is not entirely zero");
          break;
        }
      if (freed_shapes.count({r, (cc + 63) / 64}) && wrap && served == 0) reuse++;
    }
    check_disjoint(idx);
    return idx;
  };
  auto free_idx = [&](int idx) {
    Live &l = pool[idx];
    if (!l.alive) return;
    if (l.parent >= 0)
      pool[l.parent].nwin--;
    else if (vf_nrows(l.M) && vf_ncols(l.M)) {
      freed_shapes.insert({vf_nrows(l.M), (vf_ncols(l.M) + 63) / 64});
      sizes_freed.insert((long)vf_nrows(l.M) * vf_rowstride(l.M));
    }
    headers.erase((const void *)l.M);
    if (l.parent >= 0) {
      // a window's free must not free data: the parent still reads back correctly afterwards (checked below)
      vf_free_window(l.M);
    } else
      mzd_free(l.M);
    l.alive = false;
    for (size_t t = 0; t < live.size(); t++)
      if (live[t] == idx) {
        live.erase(live.begin() + t);
        break;
      }
  };
  auto owned_with_area = [&]() {
    std::vector<int> o;
    for (int j : live)
      if (pool[j].parent < 0 && vf_nrows(pool[j].M) && vf_ncols(pool[j].M)) o.push_back(j);
    return o;
  };
  auto new_window = [&](int pidx, int a, int b, int cc, int d) {
    Live &p = pool[pidx];
    int pr = vf_nrows(p.M), pc = vf_ncols(p.M);
    int lowr = a % pr, highr = lowr + 1 + b % (pr - lowr);
    int lowc = 64 * (cc % ((pc + 63) / 64));
    int highc = lowc + 1 + d % (pc - lowc);
    mzd_t *W = mzd_init_window(p.M, lowr, lowc, highr, highc);
    Live l;
    l.M = W;
    l.parent = pidx;
    l.lowr = lowr;
    l.lowc = lowc;
    pool.push_back(l);
    int idx = (int)pool.size() - 1;
    live.push_back(idx);
    pool[pidx].nwin++;
    add_header(W, idx);
    if ((int)headers.size() > 64) secondblock = 1;
    if ((int)headers.size() > 64 * 16) beyond16 = 1;
    return idx;
  };

  for (auto &x : cmds) {
    if (!v.ok) break;
    steps++;
    switch (x.k) {
    case 'I': {
      int idx = new_owned(ROWS[x.a & 7], COLS[x.b & 7]);
      // give it recognisable contents straight away (canary)
      Mat A(ROWS[x.a & 7], COLS[x.b & 7]);
      fill_dense(A, 1000 + steps);
      vf_write_block(pool[idx].M, A.w.data(), A.W);
      pool[idx].contents = A;
      break;
    }
    case 'Z': {
      int r = x.a == 0 ? 0 : ROWS[x.b & 7], cc = x.a == 1 ? 0 : COLS[x.b & 7];
      if (x.a == 2) r = cc = 0;
      new_owned(r, cc);
      break;
    }
    case 'W': {
      auto o = owned_with_area();
      if (o.empty()) break;
      int idx = new_window(o[x.a % o.size()], x.a / 7, x.b, x.c, x.d);
      check_contents(idx);
      break;
    }
    case 'w': {
      // a window with no columns and/or no rows: creating and freeing it must leave the parent's storage alone
      auto o = owned_with_area();
      if (o.empty()) break;
      int pidx = o[x.a % o.size()];
      Live &p = pool[pidx];
      int pr = vf_nrows(p.M), pc = vf_ncols(p.M);
      int lowr = x.b % pr, lowc = 64 * (x.c % ((pc + 63) / 64));
      int highr = x.d == 1 ? lowr : lowr + 1 + (x.c % (pr - lowr));  // d == 1: no rows
      int highc = x.d == 1 ? std::min(pc, lowc + 1) : lowc;           // d != 1: no columns
      if (x.d == 2) highr = lowr;                                      // neither
      mzd_t *W = mzd_init_window(p.M, lowr, lowc, highr, highc);
      Live l;
      l.M = W;
      l.parent = pidx;
      l.lowr = lowr;
      l.lowc = lowc;
      pool.push_back(l);
      int idx = (int)pool.size() - 1;
      live.push_back(idx);
      pool[pidx].nwin++;
      add_header(W, idx);
      break;
    }
    case 'F': {
      if (live.empty()) break;
      int idx = live[x.a % live.size()];
      Live &l = pool[idx];
      int r = vf_nrows(l.M), cc = vf_ncols(l.M);
      if (!r || !cc) break;
      Mat A(r, cc);
      fill_dense(A, x.b);
      vf_write_block(l.M, A.w.data(), A.W);
      if (l.parent < 0)
        l.contents = A;
      else {
        Mat &pc = pool[l.parent].contents;
        for (int i = 0; i < r; i++)
          for (int j = 0; j < cc; j++) pc.set(l.lowr + i, l.lowc + j, A.get(i, j));
      }
      break;
    }
    case 'X': {
      if (live.empty()) break;
      int idx = live[x.a % live.size()];
      if (pool[idx].parent < 0 && pool[idx].nwin > 0) {
        // parents only after their windows: free one of its windows instead
        for (int j : live)
          if (pool[j].parent == idx) {
            idx = j;
            break;
          }
      }
      int par = pool[idx].parent;
      free_idx(idx);
      if (par >= 0) check_contents(par);
      break;
    }
    case 'B': {
      auto o = owned_with_area();
      if (o.empty()) break;
      int pidx = o[x.a % o.size()];
      for (int t = 0; t < x.b && v.ok; t++) new_window(pidx, t * 7 + x.a, t * 3, t, t * 5 + 1);
      break;
    }
    case 'E': {
      std::vector<int> w;
      for (int j : live)
        if (pool[j].parent >= 0) w.push_back(j);
      if (x.a == 1) std::reverse(w.begin(), w.end());
      if (x.a == 2) {
        std::vector<int> e, o2;
        for (size_t t = 0; t < w.size(); t++) (t % 2 ? o2 : e).push_back(w[t]);
        w = e;
        w.insert(w.end(), o2.begin(), o2.end());
      }
      for (int j : w) free_idx(j);
      break;
    }
    case 'O': {
      // a library call that allocates and frees temporaries of pool sizes
      int r = ROWS[x.b & 7], cc = COLS[x.c & 7];
      if (cc > 1000) cc = 200;
      Mat A(r, cc), B(cc, r);
      fill_dense(A, steps);
      fill_dense(B, steps + 1);
      mzd_t *a = make_mzd(A), *b = make_mzd(B);
      mzd_t *cm = nullptr;
      if (x.a == 0) cm = mzd_mul(nullptr, a, b, 0);
      else if (x.a == 1) cm = mzd_transpose(nullptr, a);
      else if (x.a == 2) { mzd_echelonize_m4ri(a, 1, 0); }
      else { mzp_t *P = mzp_init(r), *Q = mzp_init(cc); mzd_pluq(a, P, Q, 0); mzp_free(P); mzp_free(Q); }
      if (x.a == 0 && read_mzd(cm) != mul(A, B)) fail("product computed in the middle of the history is wrong");
      if (x.a == 1 && read_mzd(cm) != transpose(A)) fail("transpose computed in the middle of the history is wrong");
      if (cm) mzd_free(cm);
      mzd_free(a);
      mzd_free(b);
      break;
    }
    case 'R': m4ri_fini(); m4ri_init(); break;
    case 'V': {
      std::vector<int> made;
      for (int t = 0; t < x.b && v.ok; t++) {
        int r = ROWS[t & 7], cc = COLS[(t / 8 + x.a + (t & 7)) & 7];
        if ((long)r * cc > 300000) cc = 64 + t;
        int idx = new_owned(r + t / 8, cc);
        made.push_back(idx);
      }
      for (int idx : made) free_idx(idx);
      break;
    }
    }
    // canaries: a few live matrices after every command, all of them periodically
    if (!live.empty()) {
      check_contents(live[(steps * 7) % live.size()]);
      check_contents(live[(steps * 13 + 1) % live.size()]);
    }
    if (steps % 40 == 0)
      for (int j : std::vector<int>(live)) check_contents(j);
  }
  for (int j : std::vector<int>(live)) check_contents(j);
  if ((int)sizes_freed.size() > 16) evict_sizes = 1;
  // tear down: windows first, then owners; finalise; nothing may be retained
  {
    std::vector<int> w, o;
    for (int j : live) (pool[j].parent >= 0 ? w : o).push_back(j);
    for (int j : w) free_idx(j);
    for (int j : o) free_idx(j);
  }
  m4ri_fini();
  long retained = vf_wrap_live() - live0;
  vf_wrap_enable(0);
  vf_wrap_set_fill(-1, -1);
  m4ri_init();
  if (wrap && retained != 0 && v.ok) {
    long sz[8];
    int k = vf_wrap_live_sizes(sz, 8);
    std::string s;
    for (int i = 0; i < k; i++) s += std::to_string(sz[i]) + " ";
    v.fail("after freeing everything and m4ri_fini() " + std::to_string(retained) + " blocks are still allocated (sizes: " + s + ")");
  }
  if (evict_sizes) v.label("eviction(>16 freed sizes)");
  if (reuse) v.label("dirty-block-reuse");
  if (secondblock) v.label("second-header-block");
  if (beyond16) v.label("beyond-16-header-blocks");
  if (c.i("fill", -1) >= 0) v.label("heap-fill");
  v.label(wrap ? "alloc-wrapper" : "no-alloc-wrapper");
  v.nontrivial = evict_sizes || reuse || secondblock || beyond16;
  v.subcases = steps;
  return v;
}

static RegisterProp p_C14({"C14",
                           "stateful: command lists (init from a small size pool incl. sizes above the block-cache threshold and zero "
                           "area, window, fill, free in any order with parents after their windows, bursts of up to 1150 windows crossing "
                           "the 64-header block and the 16-block limit, free-all in three orders, library calls that allocate temporaries, "
                           "fini+init) against a model of the live set; invariants after every command: fresh matrix entirely zero over "
                           "nrows x rowstride words, storage disjoint from every live owned matrix, header addresses distinct, live "
                           "matrices still hold their contents (canaries), window free leaves the parent intact; at the end everything "
                           "is freed, m4ri_fini() called and the allocation wrapper's live set must be empty. non-trivial iff the history "
                           "reaches dirty-block reuse, > 16 distinct freed sizes (eviction), a second header block or the 16-block limit; "
                           "distinct by command-list hash",
                           gen_C14, exec_C14, nullptr});
