// Common harness pieces: verdicts, operand placement (owned / window in a junk parent), pattern
// expansion, property registry.
#pragma once
#include "case.hpp"
#include "model.hpp"
#include "vf_api.h"
#include <functional>
#include <set>
#include <string>
#include <vector>

using model::Mat;
using model::u64;

struct Verdict {
  bool ok = true;
  std::string msg;
  bool nontrivial = false;
  std::vector<std::string> labels;
  long subcases = 0;  // inner evaluations for enumerating cases (0 = ordinary case)
  u64 outhash = 1469598103934665603ull;  // digest of every canonical output of the case
  void out(u64 x) { outhash = (outhash ^ x) * 1099511628211ull; outhash ^= outhash >> 31; }
  void out(const Mat &A) { out(A.hash()); }
  // digest of everything the call wrote, including outputs that are valid in more than one form (full permutation arrays,
  // the raw overwritten storage): compared only between executions of the same case in the same build (C10)
  u64 rawhash = 1469598103934665603ull;
  void raw(u64 x) { rawhash = (rawhash ^ x) * 1099511628211ull; rawhash ^= rawhash >> 29; }
  void fail(const std::string &m) {
    if (ok) {
      ok = false;
      msg = m;
    }
  }
  void label(const std::string &l) { labels.push_back(l); }
};

#define VCHECK(v, cond, text)            \
  do {                                   \
    if (!(cond)) {                       \
      (v).fail(text);                    \
    }                                    \
  } while (0)

// ---------------------------------------------------------------- patterns
// keys: <p>.pat, <p>.seed, <p>.r, <p>.prof
Mat build_pat(const Case &c, const std::string &p, int m, int n);
// unit triangular with junk in the other triangle: keys <p>.pat in {ident,dense,sparse,single}, <p>.seed, <p>.junk
Mat build_tri(const Case &c, const std::string &p, int n, bool lower);

// ---------------------------------------------------------------- operands
struct Place {
  bool view = false;
  int top = 0, bot = 0, lw = 0, rw = 0, slack = 0;
  int fill = 0;  // 0 zeros, 1 ones, 2 junk
  u64 fseed = 0;
  bool nest = false;  // the view is a window of a window of the parent (offsets accumulate)
};
Place place_from(const Case &c, const std::string &p);

struct Opnd {
  mzd_t *M = nullptr;       // the matrix handed to the library
  mzd_t *parent = nullptr;  // non-null iff view
  mzd_t *mid = nullptr;     // intermediate window when the view is nested
  Place pl;
  int m = 0, n = 0;
  std::vector<u64> snap;  // raw snapshot (parent if view, else M) taken by snapshot()
  Opnd() {}
  Opnd(const Opnd &) = delete;
  Opnd &operator=(const Opnd &) = delete;
  Opnd(Opnd &&o) { *this = std::move(o); }
  Opnd &operator=(Opnd &&o) {
    release();
    M = o.M;
    parent = o.parent;
    mid = o.mid;
    o.mid = nullptr;
    pl = o.pl;
    m = o.m;
    n = o.n;
    snap = std::move(o.snap);
    o.M = o.parent = nullptr;
    return *this;
  }
  ~Opnd() { release(); }
  void release();
  mzd_t *root() const { return parent ? parent : M; }
  void create(const Mat &contents, const Place &pl);
  void create_owned(const Mat &contents) { create(contents, Place()); }
  void adopt(mzd_t *owned);  // take ownership of a matrix returned by the library
  void snapshot();
  Mat read() const;
  // after an operation: bits of the parent outside the view unchanged? (for owned: padding zero)
  bool outside_intact(std::string *why = nullptr) const;
  // whole storage (incl. the viewed block) bit-identical to the snapshot?
  bool unchanged(std::string *why = nullptr) const;
  bool is_view() const { return parent != nullptr; }
};

Mat read_mzd(const mzd_t *M);
mzd_t *make_mzd(const Mat &A);
bool padding_zero(const mzd_t *M);
std::vector<int> read_mzp(mzp_t *P);

// execution helper: creates placed operands, tracks labels, checks read-only / written operands
struct Ex {
  const Case &c;
  Verdict v;
  bool anyview = false;
  explicit Ex(const Case &c_) : c(c_) {}
  // operand with generated placement (keys <p>.view ...), contents A; snapshot taken
  void make(Opnd &o, const std::string &p, const Mat &A);
  // destination operand: "<p>.dst" in {null, given}; when given it has shape m x n, junk contents
  // (seed <p>.jseed) and the placement of <p>.  Returns NULL pointer semantics through o.M == nullptr.
  void make_dst(Opnd &o, const std::string &p, int m, int n, Mat *junk = nullptr);
  void ro(const Opnd &o, const std::string &name);  // read-only operand must be bit-identical
  void wr(const Opnd &o, const std::string &name);  // written operand: outside of view / padding intact
  void expect(const Mat &got, const Mat &want, const std::string &what);
};

// ---------------------------------------------------------------- op catalogue
struct GenCtx {
  int tier = 0;      // 0 quick, 1 thorough
  int scale = 100;   // size cap hint
  int shard = 0, nshards = 1;
};

struct Op {
  const char *name;
  const char *prop;   // the property whose generator owns this op
  int weight;
  void (*gen)(const GenCtx &, Case &, int viewpct);  // draws from rapidcheck
  Verdict (*exec)(const Case &);
  bool views_ok;      // operands may be windows (C09)
};
std::vector<Op> &ops();
struct RegisterOp {
  RegisterOp(const Op &o) { ops().push_back(o); }
};
const Op *find_op(const std::string &name);
Verdict exec_op(const Case &c);  // dispatch on key "op"

// ---------------------------------------------------------------- registry
struct Prop {
  const char *id;
  const char *rule;
  Case (*gen)(const GenCtx &);                 // draws from rapidcheck generators (only inside rc::check)
  Verdict (*exec)(const Case &);               // pure function of the case
  std::vector<Case> (*enumerate)(const GenCtx &);  // deterministic cases (may be null)
};
std::vector<Prop> &registry();
struct RegisterProp {
  RegisterProp(const Prop &p) { registry().push_back(p); }
};
