// C17: observers (equal, cmp, is_zero, find_pivot, first_zero_row, read/write bit)
#include "gen.hpp"
using namespace model;

// position classes: first word, middle word, last partial word, last row
static std::string gen_flips(int m, int n, int k) {
  std::string s;
  for (int t = 0; t < k; t++) {
    int cls = g::rng(0, 4);
    int i = cls == 3 ? m - 1 : g::rng(0, m - 1);
    int j;
    if (cls == 0)
      j = g::rng(0, std::min(n - 1, 63));
    else if (cls == 1)
      j = g::rng(64 * ((n - 1) / 64), n - 1);
    else if (cls == 2)
      j = n - 1;
    else
      j = g::rng(0, n - 1);
    s += (t ? "," : "") + std::to_string(i) + ":" + std::to_string(j);
  }
  return s.empty() ? "-" : s;
}
static void apply_flips(Mat &A, const std::string &s) {
  if (s == "-" || s.empty()) return;
  size_t i = 0;
  while (i < s.size()) {
    size_t j = s.find(',', i);
    if (j == std::string::npos) j = s.size();
    std::string t = s.substr(i, j - i);
    size_t c = t.find(':');
    int r = atoi(t.substr(0, c).c_str()), cc = atoi(t.substr(c + 1).c_str());
    if (r < A.m && cc < A.n) A.flip(r, cc);
    i = j + 1;
  }
}

static int sgn(int x) { return (x > 0) - (x < 0); }

// ------------------------------------------------------------------ equal / cmp
static void gen_eqcmp(const GenCtx &ctx, Case &c, int viewpct) {
  c.sets("op", "mzd_equal_cmp");
  int capv = g::cap(ctx);
  int m = g::dim(std::min(capv, 120)), n = g::dim(std::max(capv, 200));
  g::extreme_shape(ctx, m, n);
  c.set("m", m).set("n", n);
  g::pat(c, "A", m, n, false);
  g::place(c, "A", viewpct);
  c.sets("fB", gen_flips(m, n, g::wpick<int>({{3, 1}, {2, 0}, {2, 2}, {1, 3}})));
  c.sets("fC", gen_flips(m, n, g::wpick<int>({{3, 1}, {1, 0}, {2, 2}, {1, 3}})));
  g::place(c, "B", viewpct);
  g::place(c, "C", viewpct);
  // occasionally different dimensions for B
  if (g::coin(1, 10)) c.set("dm", g::rng(-1, 1)).set("dn", g::pick<int>({-1, 1, 0, 64, -64}));
  c.set("same", g::coin(1, 12));  // compare A with itself
}
static Verdict exec_eqcmp(const Case &c) {
  Ex x(c);
  int m = (int)c.i("m"), n = (int)c.i("n");
  Mat A = build_pat(c, "A", m, n);
  int mb = std::max(1, m + (int)c.i("dm", 0)), nb = std::max(1, n + (int)c.i("dn", 0));
  Mat B(mb, nb);
  for (int i = 0; i < std::min(m, mb); i++)
    for (int j = 0; j < std::min(n, nb); j++) B.set(i, j, A.get(i, j));
  apply_flips(B, c.s("fB"));
  Mat C = A;
  apply_flips(C, c.s("fC"));
  Opnd oa, ob, oc;
  x.make(oa, "A", A);
  x.make(ob, "B", B);
  x.make(oc, "C", C);
  if (c.i("same", 0)) {
    if (!mzd_equal(oa.M, oa.M)) x.v.fail("mzd_equal(A,A) is false");
    if (mzd_cmp(oa.M, oa.M) != 0) x.v.fail("mzd_cmp(A,A) != 0");
  }
  const mzd_t *P[3] = {oa.M, ob.M, oc.M};
  const Mat *Mo[3] = {&A, &B, &C};
  int cm[3][3];
  for (int i = 0; i < 3; i++)
    for (int j = 0; j < 3; j++) {
      bool eq = *Mo[i] == *Mo[j];
      int e = mzd_equal(P[i], P[j]);
      if ((e != 0) != eq) x.v.fail(std::string("mzd_equal says ") + (e ? "equal" : "different") + " for matrices that are " + (eq ? "equal" : "different"));
      cm[i][j] = mzd_cmp(P[i], P[j]);
      if ((cm[i][j] == 0) != eq) x.v.fail("mzd_cmp == 0 does not coincide with equality");
      x.v.out((u64)e);
      x.v.out((u64)(sgn(cm[i][j]) + 1));
    }
  for (int i = 0; i < 3; i++)
    for (int j = 0; j < 3; j++) {
      if (sgn(cm[i][j]) != -sgn(cm[j][i])) x.v.fail("mzd_cmp is not antisymmetric");
      for (int k = 0; k < 3; k++)
        if (cm[i][j] <= 0 && cm[j][k] <= 0 && !(cm[i][k] <= 0)) x.v.fail("mzd_cmp is not transitive");
    }
  x.ro(oa, "A");
  x.ro(ob, "B");
  x.ro(oc, "C");
  int hd = 0;
  if (mb == m && nb == n) {
    Mat D = add(A, B);
    hd = (int)D.popcount();
  }
  x.v.nontrivial = (hd >= 1 && hd <= 3);
  if (mb != m || nb != n) x.v.label("dims-differ");
  x.v.label("hamming:" + std::to_string(std::min(hd, 4)));
  return x.v;
}
static RegisterOp r_eq({"mzd_equal_cmp", "C17", 10, gen_eqcmp, exec_eqcmp, true});

// ------------------------------------------------------------------ is_zero / first_zero_row
static void gen_zero(const GenCtx &ctx, Case &c, int viewpct) {
  c.sets("op", g::coin(1, 2) ? "mzd_is_zero" : "mzd_first_zero_row");
  int capv = g::cap(ctx);
  int m = g::dim(std::min(capv, 150)), n = g::dim(std::max(capv, 200));
  g::extreme_shape(ctx, m, n);
  c.set("m", m).set("n", n);
  c.sets("A.pat", g::wpick<std::string>({{3, "zero"}, {3, "single"}, {1, "spn"}, {1, "sp6"}, {1, "dense"}, {1, "row"}}));
  c.setu("A.seed", g::seed());
  if (c.s("A.pat") == "single") {
    // the only one in each word class / row class
    int cls = g::rng(0, 3);
    c.set("A.i", g::pick<int>({0, m - 1, g::rng(0, m - 1)}));
    c.set("A.j", cls == 0 ? g::rng(0, std::min(63, n - 1)) : cls == 1 ? n - 1 : cls == 2 ? g::rng(64 * ((n - 1) / 64), n - 1) : g::rng(0, n - 1));
  }
  c.set("zero_below", g::coin(1, 2) ? g::rng(0, m) : m);  // rows >= this are cleared
  g::place(c, "A", viewpct);
}
static Verdict exec_zero(const Case &c) {
  Ex x(c);
  int m = (int)c.i("m"), n = (int)c.i("n");
  Mat A = build_pat(c, "A", m, n);
  int zb = (int)c.i("zero_below", m);
  for (int i = zb; i < m; i++) memset(A.row(i), 0, sizeof(u64) * A.W);
  Opnd oa;
  x.make(oa, "A", A);
  if (c.s("op") == "mzd_is_zero") {
    int z = mzd_is_zero(oa.M);
    if ((z != 0) != A.is_zero()) x.v.fail(std::string("mzd_is_zero returned ") + std::to_string(z) + " for a " + (A.is_zero() ? "zero" : "non-zero") + " matrix");
    x.v.out((u64)(z != 0));
  } else {
    int want = 0;
    for (int i = 0; i < m; i++) {
      bool nz = false;
      for (int w = 0; w < A.W; w++) nz = nz || A.row(i)[w];
      if (nz) want = i + 1;
    }
    int got = mzd_first_zero_row(oa.M);
    if (got != want) x.v.fail("mzd_first_zero_row returned " + std::to_string(got) + " expected " + std::to_string(want));
    x.v.out((u64)got);
  }
  x.ro(oa, "A");
  long pc = A.popcount();
  x.v.nontrivial = pc >= 1 && pc <= 3;
  x.v.label(pc == 0 ? "zero-matrix" : pc <= 3 ? "few-ones" : "many-ones");
  return x.v;
}
static RegisterOp r_z1({"mzd_is_zero", "C17", 8, gen_zero, exec_zero, true});
static RegisterOp r_z2({"mzd_first_zero_row", "C17", 0, nullptr, exec_zero, true});

// ------------------------------------------------------------------ find_pivot
static void gen_pivot(const GenCtx &ctx, Case &c, int viewpct) {
  c.sets("op", "mzd_find_pivot");
  int capv = g::cap(ctx);
  int m = g::dim(std::min(capv, 100)), n = g::dim(std::max(capv, 300));
  g::extreme_shape(ctx, m, n);
  c.set("m", m).set("n", n);
  c.sets("A.pat", g::wpick<std::string>({{3, "single"}, {2, "spn"}, {2, "sp6"}, {1, "zero"}, {2, "dense"}, {1, "sp3"}, {1, "col"}, {2, "lowrank"}}));
  c.setu("A.seed", g::seed());
  if (c.s("A.pat") == "lowrank") c.set("A.r", g::rng(0, std::min(m, n))).sets("A.prof", g::pick<std::string>({"gaps", "wordgap", "tail", "runs"}));
  int sc;
  int cls = g::rng(0, 5);
  if (cls == 0)
    sc = 0;
  else if (cls == 1)
    sc = std::max(0, n - g::rng(1, 64));  // start in the last 64 columns
  else if (cls == 2)
    sc = std::max(0, std::min(n - 1, 64 * ((n - 1) / 64) + g::rng(0, 63)));  // start in the last word
  else if (cls == 3)
    sc = std::min(n - 1, 64 * g::rng(0, (n - 1) / 64));  // aligned
  else
    sc = g::rng(0, n - 1);
  c.set("start_row", g::wpick<int>({{2, 0}, {3, g::rng(0, m - 1)}, {1, m - 1}}));
  c.set("start_col", sc);
  // clear a left part of the region so that the left-most non-zero column lies in a later word
  c.set("clear_to", g::wpick<int>({{2, 0}, {3, g::rng(0, n)}, {1, n}}));
  g::place(c, "A", viewpct);
}
static Verdict exec_pivot(const Case &c) {
  Ex x(c);
  int m = (int)c.i("m"), n = (int)c.i("n"), sr = (int)c.i("start_row"), sc = (int)c.i("start_col"), ct = (int)c.i("clear_to", 0);
  Mat A = build_pat(c, "A", m, n);
  for (int i = sr; i < m; i++)
    for (int j = sc; j < std::min(n, ct); j++) A.set(i, j, 0);
  Opnd oa;
  x.make(oa, "A", A);
  rci_t r = -7, cc = -7;
  int found = mzd_find_pivot(oa.M, sr, sc, &r, &cc);
  int wantc = -1;
  for (int j = sc; j < n && wantc < 0; j++)
    for (int i = sr; i < m; i++)
      if (A.get(i, j)) {
        wantc = j;
        break;
      }
  if (wantc < 0) {
    if (found) x.v.fail("mzd_find_pivot reports a pivot in a zero region");
  } else {
    if (!found)
      x.v.fail("mzd_find_pivot found nothing although column " + std::to_string(wantc) + " of the region is non-zero");
    else if (cc != wantc)
      x.v.fail("mzd_find_pivot column " + std::to_string(cc) + " expected left-most non-zero column " + std::to_string(wantc));
    else if (r < sr || r >= m || !A.get(r, cc))
      x.v.fail("mzd_find_pivot row " + std::to_string(r) + " does not hold a one in column " + std::to_string(cc));
  }
  x.v.out((u64)(found != 0));
  if (found) x.v.out((u64)cc);
  x.ro(oa, "A");
  // which of the four code paths
  if (n - sc < 64)
    x.v.label("pivot:short-tail");
  else if (wantc >= 0 && wantc / 64 == sc / 64)
    x.v.label("pivot:first-word");
  else if (wantc >= 0 && wantc / 64 < (n + 63) / 64 - 1)
    x.v.label("pivot:middle-word");
  else if (wantc >= 0)
    x.v.label("pivot:last-word");
  else
    x.v.label("pivot:none");
  long region = 0;
  for (int i = sr; i < m; i++)
    for (int j = sc; j < n; j++) region += A.get(i, j);
  x.v.nontrivial = region >= 1;
  if (region == 1) x.v.label("region-one-bit");
  return x.v;
}
static RegisterOp r_pv({"mzd_find_pivot", "C17", 12, gen_pivot, exec_pivot, true});

// ------------------------------------------------------------------ read after write
static void gen_rw(const GenCtx &ctx, Case &c, int viewpct) {
  c.sets("op", "mzd_read_write_bit");
  int capv = g::cap(ctx);
  int m = g::dim(std::min(capv, 40)), n = g::dim(std::max(capv, 200));
  c.set("m", m).set("n", n).set("steps", g::rng(1, 60));
  c.setu("seed", g::seed());
  g::pat(c, "A", m, n, false);
  g::place(c, "A", viewpct);
}
static Verdict exec_rw(const Case &c) {
  Ex x(c);
  int m = (int)c.i("m"), n = (int)c.i("n"), steps = (int)c.i("steps");
  u64 s = c.u("seed");
  Mat A = build_pat(c, "A", m, n);
  Opnd oa;
  x.make(oa, "A", A);
  for (int t = 0; t < steps && x.v.ok; t++) {
    u64 r = splitmix64(s);
    int i = (int)(r % (u64)m), j = (int)((r >> 20) % (u64)n), v = (int)((r >> 50) & 1);
    if ((r >> 51) & 1) j = n - 1 - (int)((r >> 52) % (u64)std::min(n, 3));  // near the last column
    vf_write_bit(oa.M, i, j, v);
    A.set(i, j, v);
    if (vf_read_bit(oa.M, i, j) != v) x.v.fail("read_bit after write_bit returns a different value");
    // another entry keeps its value
    int i2 = (int)((r >> 8) % (u64)m), j2 = (int)((r >> 30) % (u64)n);
    if (vf_read_bit(oa.M, i2, j2) != A.get(i2, j2)) x.v.fail("read_bit of an entry not written changed");
  }
  Mat got = oa.read();
  x.expect(got, A, "matrix after write sequence");
  x.v.out(got);
  x.wr(oa, "A");
  x.v.nontrivial = true;
  return x.v;
}
static RegisterOp r_rw({"mzd_read_write_bit", "C17", 5, gen_rw, exec_rw, true});

static Case gen_C17(const GenCtx &ctx) { return gen_from_ops("C17", ctx, 35); }
static RegisterProp p_C17({"C17",
                           "random: observer x shape x content (near-equal pairs/triples with 0..3 flipped bits at position classes "
                           "first word / middle / last partial word / last row; the only one of a region in each word class; "
                           "pivot search start positions incl. last 64 columns and last word) x placement (owned, or a window in a "
                           "junk parent); oracle = model predicates and the cmp laws; non-trivial iff Hamming distance 1..3 "
                           "(equal/cmp), 1..3 ones (zero tests), non-zero region (pivot); distinct by recipe hash",
                           gen_C17, exec_op, nullptr});
