// rapidcheck generator helpers.  Every random choice of a case is drawn here so that shrinking and
// replay work; callable only inside an rc::check body.
#pragma once
#include "harness.hpp"
#include <rapidcheck.h>

namespace g {

// alternative source of the primitive choices: a byte string supplied by libFuzzer (src/fz_ops.cpp).  The generators are
// the same code in both modes, so every precondition they maintain holds for fuzzer-derived cases as well.
struct ByteSrc {
  const uint8_t *p;
  size_t n, pos;
  int size;        // plays the role of rapidcheck's size parameter
  long exhausted;  // choices made after the bytes ran out (they take the lowest value)
  u64 take(int nb) {
    u64 x = 0;
    for (int i = 0; i < nb; i++) {
      u64 b = 0;
      if (pos < n) b = p[pos++];
      else exhausted++;
      x |= b << (8 * i);
    }
    return x;
  }
};
inline ByteSrc *&bytes() {
  static ByteSrc *b = nullptr;
  return b;
}

inline int rng(int lo, int hi) {  // inclusive
  if (hi <= lo) return lo;
  if (ByteSrc *b = bytes()) {
    u64 range = (u64)((long long)hi - (long long)lo) + 1;
    int nb = range <= 256 ? 1 : range <= 65536 ? 2 : 4;
    return (int)((long long)lo + (long long)(b->take(nb) % range));
  }
  return *rc::gen::resize(rc::kNominalSize, rc::gen::inRange<int>(lo, hi + 1));
}
inline bool coin(int num, int den) { return rng(0, den - 1) < num; }
inline u64 seed() {
  if (ByteSrc *b = bytes()) return b->take(8);
  return *rc::gen::resize(rc::kNominalSize, rc::gen::arbitrary<uint64_t>());
}
inline int cursize() {
  if (ByteSrc *b = bytes()) return b->size;
  return *rc::gen::withSize([](int size) { return rc::gen::just(size); });
}
template <class T>
inline T pick(const std::vector<T> &v) {
  return v[rng(0, (int)v.size() - 1)];
}
// weighted pick; first entry is what shrinking converges to
template <class T>
inline T wpick(const std::vector<std::pair<int, T>> &v) {
  int tot = 0;
  for (auto &p : v) tot += p.first;
  int x = rng(0, tot - 1);
  for (auto &p : v) {
    if (x < p.first) return p.second;
    x -= p.first;
  }
  return v.back().second;
}

// size cap that grows with rapidcheck's size parameter
inline int cap(const GenCtx &ctx, int lo = 8) {
  int sz = cursize();
  int c = (int)((long)ctx.scale * (sz + 5) / 105);
  return std::max(lo, c);
}

// dimension mixture: tiny, word boundary, threshold boundary, uniform
inline int dim(int capv, const std::vector<int> &thresholds = {}) {
  int cls = rng(0, 99);
  if (cls < 15) return rng(1, std::min(8, capv));
  if (cls < 40 && capv >= 62) {
    int q = rng(1, std::max(1, (capv + 2) / 64));
    int d = rng(-2, 2);
    return std::max(1, std::min(capv, 64 * q + d));
  }
  if (cls < 55 && !thresholds.empty()) {
    std::vector<int> ok;
    for (int t : thresholds)
      if (t - 2 >= 1 && t + 2 <= capv) ok.push_back(t);
    if (!ok.empty()) return pick(ok) + rng(-2, 2);
  }
  return rng(1, capv);
}

inline void pat(Case &c, const std::string &p, int m, int n, bool structured = true) {
  std::string k = wpick<std::string>({{30, "dense"}, {structured ? 25 : 0, "lowrank"}, {8, "sp3"}, {5, "sp6"},
                                      {4, "spn"}, {3, "zero"}, {4, "ident"}, {5, "single"}, {2, "row"},
                                      {2, "col"}, {3, "ones"}, {5, "stripes"}, {4, "dup"}});
  c.sets(p + ".pat", k);
  if (k != "zero" && k != "ident" && k != "ones") c.setu(p + ".seed", seed());
  if (k == "lowrank") {
    int mn = std::min(m, n);
    int cls = rng(0, 9);
    int r = cls == 0 ? 0 : cls == 1 ? 1 : cls == 2 ? mn : cls == 3 ? std::max(0, mn - 1) : cls < 7 ? rng(0, mn) : rng(0, std::max(1, mn / 3));
    c.set(p + ".r", r);
    c.sets(p + ".prof", wpick<std::string>({{3, "gaps"}, {2, "lead"}, {1, "tail"}, {3, "wordgap"}, {3, "runs"}, {1, "halves"}}));
  }
}

// rank-structured only (elimination / factorisation inputs)
inline void rankpat(Case &c, const std::string &p, int m, int n) {
  std::string k = wpick<std::string>({{55, "lowrank"}, {12, "dense"}, {6, "sp3"}, {5, "sp6"}, {4, "spn"}, {3, "zero"},
                                      {3, "ident"}, {3, "single"}, {2, "row"}, {2, "col"}, {2, "ones"}, {2, "stripes"},
                                      {3, "dup"}});
  c.sets(p + ".pat", k);
  if (k != "zero" && k != "ident" && k != "ones") c.setu(p + ".seed", seed());
  if (k == "lowrank") {
    int mn = std::min(m, n);
    int cls = rng(0, 9);
    int r = cls == 0 ? 0 : cls == 1 ? 1 : cls == 2 ? mn : cls == 3 ? std::max(0, mn - 1) : cls < 7 ? rng(0, mn) : rng(0, std::max(1, mn / 3));
    c.set(p + ".r", r);
    c.sets(p + ".prof", wpick<std::string>({{3, "gaps"}, {2, "lead"}, {1, "tail"}, {3, "wordgap"}, {4, "runs"}, {2, "halves"}}));
  }
}

inline void tri(Case &c, const std::string &p) {
  c.sets(p + ".pat", wpick<std::string>({{5, "dense"}, {2, "sparse"}, {1, "vsparse"}, {1, "single"}, {1, "ident"}, {1, "ones"}}));
  c.setu(p + ".seed", seed());
  c.set(p + ".junk", coin(3, 4) ? 1 : 0);
}

// placement: owned, or a window in a junk parent
inline void place(Case &c, const std::string &p, int viewpct) {
  if (rng(0, 99) >= viewpct) return;
  c.set(p + ".view", 1);
  c.set(p + ".top", rng(0, 2));
  c.set(p + ".bot", rng(0, 2));
  c.set(p + ".lw", rng(0, 3));
  // mostly a parent only slightly wider than the view; sometimes a much wider one (row stride far above the view's width:
  // anything derived from the stride instead of the width is then far off)
  c.set(p + ".rw", wpick<int>({{9, rng(0, 2)}, {1, rng(20, 60)}}));
  c.set(p + ".slack", wpick<int>({{2, 0}, {2, rng(1, 63)}, {1, 1}, {1, 63}}));
  c.set(p + ".fill", wpick<int>({{6, 2}, {2, 1}, {1, 0}}));
  c.setu(p + ".fseed", seed());
  if (coin(1, 4)) c.set(p + ".nest", 1);
}

// shapes that enter the block-recursive PLE (width * nrows > __M4RI_PLE_CUTOFF and ncols > 64) in configurations with a
// small cache; returns false when the threshold is out of reach at the current scale
inline bool ple_recursive_shape(const GenCtx &ctx, int &m, int &n) {
  long plecut = vf_cfg_ple_cutoff();
  if (ctx.scale < 400 || plecut > 20000) return false;
  int w = wpick<int>({{3, rng(8, 20)}, {2, rng(20, 64)}, {1, rng(6, 8)}});
  m = (int)(plecut / w) + rng(1, 80);
  n = 64 * w - pick<int>({0, 0, 1, 63, rng(0, 63)});
  return true;
}

// extreme aspect ratios (a handful of rows or columns against tens of thousands): cache-derived rules for automatic
// parameters and strip heights only fire for such shapes.  Returns true (rarely) and overrides (a, b).
inline bool extreme_shape(const GenCtx &ctx, int &a, int &b, int prob_den = 40) {
  if (ctx.scale < 400 || !coin(1, prob_den)) return false;
  int few = rng(1, 8), huge = rng(20000, 45000);
  if (coin(1, 2)) {
    a = few;
    b = huge;
  } else {
    a = huge;
    b = few;
  }
  return true;
}

inline int cutoff() {
  int cls = rng(0, 9);
  if (cls < 2) return 0;
  if (cls < 3) return rng(1, 63);
  if (cls < 7) return 64 * rng(1, 4);
  if (cls < 9) return 64 * rng(1, 8) + rng(0, 63);
  return rng(64, 4096);
}

// LAPACK permutation of given length over dimension dimn: P[i] in [i, dimn)
inline std::string lapack_perm(int len, int dimn, std::vector<int> *out = nullptr) {
  int kind = rng(0, 7);
  std::vector<int> P(len);
  for (int i = 0; i < len; i++) P[i] = i;
  if (kind == 6 && dimn >= 4) {
    // structured: two runs of columns / rows exchanged in order (what a factorisation's pivot bookkeeping produces): start
    // positions on word boundaries or anywhere, run lengths around a word
    int t = wpick<int>({{3, pick<int>({62, 63, 64, 65})}, {2, rng(1, 70)}});
    t = std::max(1, std::min(t, dimn / 2));
    int a = coin(1, 2) ? 64 * rng(0, std::max(0, (dimn - 2 * t) / 64)) : rng(0, dimn - 2 * t);
    int bmin = a + t, bmax = dimn - t;
    int b = coin(1, 2) ? std::min(bmax, std::max(bmin, 64 * rng((bmin + 63) / 64, std::max((bmin + 63) / 64, bmax / 64)))) : rng(bmin, bmax);
    for (int j = 0; j < t && a + j < len; j++) P[a + j] = b + j;
  } else if (kind == 7 && dimn >= 2) {
    // structured: every entry fetches from a fixed distance (a rotation written as a swap sequence)
    int d = std::min(dimn - 1, pick<int>({1, 63, 64, 65, rng(1, std::max(1, dimn - 1))}));
    for (int i = 0; i < len && i + d < dimn; i++) P[i] = i + d;
  } else if (kind == 0) {
  } else if (kind == 1 && len > 0) {
    int i = rng(0, len - 1);
    P[i] = rng(i, dimn - 1);
  } else if (kind == 2) {
    for (int i = 0; i < len; i++)
      if (coin(1, 8)) P[i] = rng(i, dimn - 1);
  } else {
    u64 s = seed();
    for (int i = 0; i < len; i++) P[i] = i + (int)(model::splitmix64(s) % (u64)(dimn - i));
  }
  std::string str;
  for (int i = 0; i < len; i++) str += (i ? "," : "") + std::to_string(P[i]);
  if (out) *out = P;
  return str.empty() ? "-" : str;
}

}  // namespace g

// pick an op of the property by weight and let it generate the case
Case gen_from_ops(const char *prop, const GenCtx &ctx, int viewpct);
void even_offsets_for_building_blocks(Case &c);

inline std::vector<int> parse_intlist(const std::string &s) {
  std::vector<int> v;
  if (s == "-" || s.empty()) return v;
  size_t i = 0;
  while (i < s.size()) {
    size_t j = s.find(',', i);
    if (j == std::string::npos) j = s.size();
    v.push_back(atoi(s.substr(i, j - i).c_str()));
    i = j + 1;
  }
  return v;
}
