// C02: echelon forms (rank, row space, unique RREF) across all echelonisation entry points
#include "gen.hpp"
using namespace model;

static void gen_echelon(const GenCtx &ctx, Case &c, int viewpct) {
  std::string r = g::wpick<std::string>({{3, "mzd_echelonize_naive"}, {2, "mzd_gauss_delayed"}, {8, "mzd_echelonize_m4ri"},
                                          {4, "mzd_echelonize"}, {5, "_mzd_echelonize_m4ri"}, {5, "mzd_echelonize_pluq"}});
  c.sets("op", r);
  int capv = g::cap(ctx, 20);
  int k = 0;
  if (r == "mzd_echelonize_m4ri" || r == "_mzd_echelonize_m4ri") k = g::wpick<int>({{1, 0}, {6, g::rng(1, 10)}});
  int kk = 6 * (k ? k : 4);
  std::vector<int> thr = {64, 128, 256, kk, 2 * kk, 3 * kk};
  int m = g::dim(capv, thr), n = g::dim(capv, thr);
  if (g::coin(1, 4) && k) n = std::max(1, kk * g::rng(1, std::max(1, capv / kk)) + g::rng(0, kk - 1));  // every residue mod 6k
  if (r == "mzd_echelonize_naive" || r == "mzd_gauss_delayed") {
    m = std::min(m, 300);
    n = std::min(n, 300);
  }
  if ((r == "mzd_echelonize_pluq" || r == "mzd_echelonize" || r == "_mzd_echelonize_m4ri") && g::coin(1, 6)) g::ple_recursive_shape(ctx, m, n);
  // few rows, very many columns: the automatic table parameter is reduced by a cache rule (0.75 * 2^k * ncols > L3 / 2)
  // that only fires for such shapes; reachable cheaply when the configured L3 is small
  if (vf_cfg_l3() <= 300000 && g::coin(1, 40) && r != "mzd_echelonize_naive" && r != "mzd_gauss_delayed") {
    m = g::rng(1, 8);
    n = (int)(vf_cfg_l3() / 3) + g::rng(-2000, 6000);
    if (g::coin(1, 2)) k = 0;
  }
  if (r != "mzd_echelonize_naive" && r != "mzd_gauss_delayed") g::extreme_shape(ctx, m, n, 60);
  c.set("m", m).set("n", n).set("full", g::rng(0, 1));
  if (r == "mzd_echelonize_m4ri" || r == "_mzd_echelonize_m4ri") c.set("k", k);
  if (r == "_mzd_echelonize_m4ri") {
    c.set("heuristic", g::coin(4, 5));
    // threshold in thousandths: 0 (switch at start), small (mid-way switch on n > 256), 1000 (never)
    c.set("thr1000", g::wpick<int>({{2, 0}, {4, g::rng(1, 300)}, {2, g::rng(300, 1000)}, {1, 1000}}));
    if (c.i("heuristic") && g::coin(1, 2)) c.set("n", std::max(n, g::rng(300, std::max(320, capv))));
  }
  n = (int)c.i("n");
  g::rankpat(c, "A", m, n);
  g::place(c, "A", viewpct);
  c.set("topk", g::rng(0, 10));
}

static Verdict exec_echelon(const Case &c) {
  Ex x(c);
  std::string r = c.s("op");
  int m = (int)c.i("m"), n = (int)c.i("n"), full = (int)c.i("full"), k = (int)c.i("k", 0);
  Mat A = build_pat(c, "A", m, n);
  Mat R = A;
  std::vector<int> piv;
  int rk = rref(R, &piv);
  Opnd oa;
  x.make(oa, "A", A);
  int got_r;
  if (r == "mzd_echelonize_naive") got_r = mzd_echelonize_naive(oa.M, full);
  else if (r == "mzd_gauss_delayed") got_r = mzd_gauss_delayed(oa.M, 0, full);
  else if (r == "mzd_echelonize_m4ri") got_r = mzd_echelonize_m4ri(oa.M, full, k);
  else if (r == "mzd_echelonize") got_r = mzd_echelonize(oa.M, full);
  else if (r == "mzd_echelonize_pluq") got_r = mzd_echelonize_pluq(oa.M, full);
  else if (r == "_mzd_echelonize_m4ri") got_r = _mzd_echelonize_m4ri(oa.M, full, k, (int)c.i("heuristic"), c.i("thr1000") / 1000.0);
  else throw std::runtime_error("bad echelon route");
  if (got_r != rk) x.v.fail(r + " returned rank " + std::to_string(got_r) + " expected " + std::to_string(rk));
  Mat G = oa.read();
  x.wr(oa, "A");
  x.v.out((u64)got_r);
  if (full) {
    x.expect(G, R, r + " (full): reduced row echelon form");
    x.v.out(G);
  } else if (x.v.ok) {
    if (!is_ref_with_pivots(G, piv))
      x.v.fail(r + " (not full): result is not a row echelon form with the pivot columns of A (strictly increasing leading columns, zero rows last)");
    else {
      Mat G2 = G;
      rref(G2);
      if (G2 != R) x.v.fail(r + " (not full): row space of the result differs from the row space of A");
    }
    // completing the row echelon form with the top-reduction routine gives the RREF
    if (x.v.ok) {
      mzd_top_echelonize_m4ri(oa.M, (int)c.i("topk", 0));
      Mat T = oa.read();
      x.expect(T, R, "mzd_top_echelonize_m4ri after " + r);
      x.wr(oa, "A(top)");
      x.v.out(T);
      x.v.label("top-reduce");
    }
  }
  // labels
  bool profile_trivial = true;
  for (int i = 0; i < rk; i++) profile_trivial = profile_trivial && piv[i] == i;
  bool deficient = rk < std::min(m, n);
  if (n > 64 && (long)((n + 63) / 64) * m > vf_cfg_ple_cutoff()) x.v.label("recursive-PLE-shape");
  x.v.label(full ? "full" : "not-full");
  x.v.label(rk == 0 ? "rank0" : deficient ? "rank-deficient" : "full-rank");
  if (!profile_trivial) x.v.label("pivot-gaps");
  bool sw = false;
  if (r == "mzd_echelonize" || (r == "_mzd_echelonize_m4ri" && c.i("heuristic"))) {
    x.v.label("heuristic");
    if (r == "_mzd_echelonize_m4ri") {
      int t = (int)c.i("thr1000");
      x.v.label(t == 0 ? "switch-at-start" : (t <= 300 && n > 320) ? "switch-mid-way-possible" : "switch-unlikely");
      sw = t <= 300;
    }
  }
  if (k) {
    int maxgap = 0;
    for (int i = 0; i + 1 < rk; i++) maxgap = std::max(maxgap, piv[i + 1] - piv[i] - 1);
    if (maxgap > 6 * k) x.v.label("no-pivot-block");
    x.v.label("k:" + std::to_string(k));
  }
  x.v.nontrivial = rk > 0 && (deficient || !profile_trivial || sw);
  return x.v;
}
static RegisterOp r_e0({"mzd_echelonize_m4ri", "C02", 10, gen_echelon, exec_echelon, true});
static RegisterOp r_e1({"mzd_echelonize_naive", "C02", 0, nullptr, exec_echelon, true});
static RegisterOp r_e2({"mzd_gauss_delayed", "C02", 0, nullptr, exec_echelon, true});
static RegisterOp r_e3({"mzd_echelonize", "C02", 0, nullptr, exec_echelon, true});
static RegisterOp r_e4({"mzd_echelonize_pluq", "C02", 0, nullptr, exec_echelon, true});
static RegisterOp r_e5({"_mzd_echelonize_m4ri", "C02", 0, nullptr, exec_echelon, true});

static Case gen_C02(const GenCtx &ctx) { return gen_from_ops("C02", ctx, 15); }
static RegisterProp p_C02({"C02",
                           "random: entry point (naive, gauss_delayed, M4RI k in 0..10, hybrid default, hybrid with generated "
                           "threshold, PLUQ-based) x full in {0,1} x rank-structured A (generated rank, pivot set with gaps, runs of "
                           "consecutive pivots, zero column blocks straddling words, dependent rows first/last/interleaved, "
                           "duplicates, zero/identity/sparse/dense) x shapes incl. every residue of ncols mod 6k; oracle = model "
                           "Gauss-Jordan: rank, unique RREF (full), REF shape with the model's pivot columns + equal row space "
                           "(not full), then top-reduction must give the RREF; non-trivial iff rank > 0 and (rank-deficient or pivot "
                           "gaps or density switch possible); distinct by recipe hash",
                           gen_C02, exec_op, nullptr});
