// libFuzzer target for C18 (thorough tier): mzd_from_png / mzd_from_jcf on arbitrary bytes.
// abort() is interposed: an abort raised while the reader runs (libpng's default error path, m4ri_die) is an
// allowed rejection and unwinds to the fuzz loop; memory errors and UB stay fatal through ASan/UBSan.
// Semantic oracle inside the target: a file that the reference decoder accepts as a non-interlaced 1-bit
// grayscale image must be read as exactly the matrix it denotes; a returned matrix must have zero padding.
#include "harness.hpp"
#include "pngfile.hpp"
#include <csetjmp>
#include <fcntl.h>
#include <unistd.h>

static jmp_buf g_jb;
static volatile int g_in_target = 0;

extern "C" void abort(void) {
  if (g_in_target) {
    g_in_target = 0;
    longjmp(g_jb, 1);
  }
  __builtin_trap();
}

static std::string g_file;
static long g_execs = 0, g_abort = 0, g_null = 0, g_matrix = 0, g_checked = 0;

static void counters() {
  const char *p = getenv("VF_FZ_STATS");
  if (!p) return;
  FILE *f = fopen(p, "w");
  if (!f) return;
  fprintf(f, "{\"execs\": %ld, \"abort\": %ld, \"null\": %ld, \"matrix\": %ld, \"checked_against_reference\": %ld}\n", g_execs, g_abort,
          g_null, g_matrix, g_checked);
  fclose(f);
}

extern "C" int LLVMFuzzerInitialize(int *, char ***) {
  const char *t = getenv("VF_TMP");
  g_file = std::string(t ? t : "/tmp") + "/fz-io-" + std::to_string(getpid());
  atexit(counters);
  return 0;
}

extern "C" int LLVMFuzzerTestOneInput(const uint8_t *data, size_t size) {
  if (size < 1) return 0;
  bool png_ = data[0] & 1;
  data++;
  size--;
  if (size > (1 << 16)) return 0;
  // keep image dimensions small so that "file asks for a huge matrix" stays cheap
  if (png_ && size >= 24 && !memcmp(data, png::SIG, 8)) {
    if (png::get32(data + 16) > 4096 || png::get32(data + 20) > 4096) return 0;
  }
  int fd = open(g_file.c_str(), O_CREAT | O_TRUNC | O_WRONLY, 0600);
  if (fd < 0) return 0;
  if (write(fd, data, size) != (ssize_t)size) {
    close(fd);
    return 0;
  }
  close(fd);
  g_execs++;
  if ((g_execs & 1023) == 0) counters();
  int maxfd_before = dup(0);
  if (maxfd_before >= 0) close(maxfd_before);
  mzd_t *volatile A = nullptr;
  if (setjmp(g_jb) == 0) {
    g_in_target = 1;
    A = png_ ? mzd_from_png(g_file.c_str(), 0) : mzd_from_jcf(g_file.c_str(), 0);
    g_in_target = 0;
  } else {
    // aborted inside the reader: the FILE handle it opened is still open - close leaked descriptors
    g_abort++;
    for (int f = maxfd_before; f >= 0 && f < maxfd_before + 4; f++) close(f);
    return 0;
  }
  if (!A) {
    g_null++;
    return 0;
  }
  g_matrix++;
  if (vf_nrows(A) < 0 || vf_ncols(A) < 0) {
    fprintf(stderr, "C18: reader returned a matrix object with negative dimensions\n");
    __builtin_trap();
  }
  if (vf_nrows(A) && vf_ncols(A) && vf_padding_or(A)) {
    fprintf(stderr, "C18: returned matrix has non-zero padding\n");
    __builtin_trap();
  }
  if (png_) {
    png::Image im;
    std::vector<uint8_t> b(data, data + size);
    if (png::decode(b, im, nullptr) && im.depth == 1 && im.ctype == 0 && im.w > 0 && im.h > 0) {
      g_checked++;
      Mat want(im.h, im.w);
      for (int i = 0; i < im.h; i++)
        for (int j = 0; j < im.w; j++)
          if (!im.px[(size_t)i * im.w + j]) want.set(i, j, 1);
      if (vf_nrows(A) != im.h || vf_ncols(A) != im.w || read_mzd(A) != want) {
        fprintf(stderr, "C18: matrix read from a valid 1-bit grayscale PNG contradicts the file\n");
        __builtin_trap();
      }
    }
  }
  mzd_free(A);
  return 0;
}
