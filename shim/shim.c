/* shim.c: the only translation unit of the harness that sees m4ri headers.
 * Compiled per configuration together with /repo/m4ri/*.c. */
#include <m4ri/m4ri.h>
#include <m4ri/xor.h>
#include <m4ri/mmc.h>
#include "vf_api.h" /* re-declarations are checked against the real prototypes here */
#include <string.h>
#if __M4RI_HAVE_OPENMP
#include <omp.h>
#endif

rci_t vf_nrows(mzd_t const *M) { return M->nrows; }
rci_t vf_ncols(mzd_t const *M) { return M->ncols; }
wi_t vf_width(mzd_t const *M) { return M->width; }
wi_t vf_rowstride(mzd_t const *M) { return M->rowstride; }
word vf_high_bitmask(mzd_t const *M) { return M->high_bitmask; }
unsigned vf_flags(mzd_t const *M) { return M->flags; }
word *vf_data(mzd_t const *M) { return M->data; }
word *vf_row_ptr(mzd_t const *M, rci_t r) { return M->data + (size_t)M->rowstride * r; }
int vf_is_windowed(mzd_t const *M) { return mzd_is_windowed(M); }
int vf_is_dangerous_window(mzd_t const *M) { return mzd_is_dangerous_window(M); }
size_t vf_sizeof_mzd(void) { return sizeof(mzd_t); }

static word vf_lastmask(mzd_t const *M) {
  int r = M->ncols % 64;
  return r ? (~(word)0 >> (64 - r)) : ~(word)0;
}

void vf_write_block(mzd_t *M, const word *words, int wstride) {
  if (M->nrows <= 0 || M->ncols <= 0) return;
  wi_t w = (M->ncols + 63) / 64;
  word mask = vf_lastmask(M);
  for (rci_t i = 0; i < M->nrows; i++) {
    word *row = M->data + (size_t)M->rowstride * i;
    const word *src = words + (size_t)wstride * i;
    for (wi_t j = 0; j + 1 < w; j++) row[j] = src[j];
    row[w - 1] = (row[w - 1] & ~mask) | (src[w - 1] & mask);
  }
}

void vf_read_block(mzd_t const *M, word *words, int wstride) {
  if (M->nrows <= 0 || M->ncols <= 0) return;
  wi_t w = (M->ncols + 63) / 64;
  word mask = vf_lastmask(M);
  for (rci_t i = 0; i < M->nrows; i++) {
    const word *row = M->data + (size_t)M->rowstride * i;
    word *dst = words + (size_t)wstride * i;
    for (wi_t j = 0; j + 1 < w; j++) dst[j] = row[j];
    dst[w - 1] = row[w - 1] & mask;
  }
}

void vf_read_raw(mzd_t const *M, word *words) {
  if (M->nrows == 0 || M->data == NULL) return;
  for (rci_t i = 0; i < M->nrows; i++)
    memcpy(words + (size_t)M->rowstride * i, M->data + (size_t)M->rowstride * i, sizeof(word) * M->rowstride);
}
void vf_write_raw(mzd_t *M, const word *words) {
  if (M->nrows == 0 || M->data == NULL) return;
  for (rci_t i = 0; i < M->nrows; i++)
    memcpy(M->data + (size_t)M->rowstride * i, words + (size_t)M->rowstride * i, sizeof(word) * M->rowstride);
}

word vf_padding_or(mzd_t const *M) {
  if (M->nrows <= 0 || M->ncols <= 0) return 0;
  wi_t w = (M->ncols + 63) / 64;
  word mask = vf_lastmask(M);
  word acc = 0;
  for (rci_t i = 0; i < M->nrows; i++) {
    const word *row = M->data + (size_t)M->rowstride * i;
    acc |= row[w - 1] & ~mask;
    for (wi_t j = w; j < M->rowstride; j++) acc |= row[j];
  }
  return acc;
}

mzd_t const *vf_init_window_const(mzd_t const *M, rci_t lowr, rci_t lowc, rci_t highr, rci_t highc) {
  return mzd_init_window_const(M, lowr, lowc, highr, highc);
}
void vf_free_window(mzd_t *M) { mzd_free_window(M); }
void vf_row_swap(mzd_t *M, rci_t a, rci_t b) { mzd_row_swap(M, a, b); }
void vf__row_swap(mzd_t *M, rci_t a, rci_t b, wi_t startblock) { _mzd_row_swap(M, a, b, startblock); }
void vf_col_swap(mzd_t *M, rci_t a, rci_t b) { mzd_col_swap(M, a, b); }
void vf_col_swap_in_rows(mzd_t *M, rci_t a, rci_t b, rci_t start_row, rci_t stop_row) {
  mzd_col_swap_in_rows(M, a, b, start_row, stop_row);
}
BIT vf_read_bit(mzd_t const *M, rci_t r, rci_t c) { return mzd_read_bit(M, r, c); }
void vf_write_bit(mzd_t *M, rci_t r, rci_t c, BIT v) { mzd_write_bit(M, r, c, v); }
void vf_xor_bits(mzd_t *M, rci_t x, rci_t y, int n, word values) { mzd_xor_bits(M, x, y, n, values); }
void vf_and_bits(mzd_t *M, rci_t x, rci_t y, int n, word values) { mzd_and_bits(M, x, y, n, values); }
void vf_clear_bits(mzd_t *M, rci_t x, rci_t y, int n) { mzd_clear_bits(M, x, y, n); }
word vf_read_bits(mzd_t const *M, rci_t x, rci_t y, int n) { return mzd_read_bits(M, x, y, n); }
int vf_read_bits_int(mzd_t const *M, rci_t x, rci_t y, int n) { return mzd_read_bits_int(M, x, y, n); }
void vf_row_add_offset(mzd_t *M, rci_t dstrow, rci_t srcrow, rci_t coloffset) {
  mzd_row_add_offset(M, dstrow, srcrow, coloffset);
}
void vf_combine(mzd_t *C, rci_t c_row, wi_t c_startblock, mzd_t const *A, rci_t a_row, wi_t a_startblock,
                mzd_t const *B, rci_t b_row, wi_t b_startblock) {
  mzd_combine(C, c_row, c_startblock, A, a_row, a_startblock, B, b_row, b_startblock);
}
void vf_combine_even(mzd_t *C, rci_t c_row, wi_t c_startblock, mzd_t const *A, rci_t a_row, wi_t a_startblock,
                     mzd_t const *B, rci_t b_row, wi_t b_startblock) {
  mzd_combine_even(C, c_row, c_startblock, A, a_row, a_startblock, B, b_row, b_startblock);
}
void vf_combine_even_in_place(mzd_t *A, rci_t a_row, wi_t a_startblock, mzd_t const *B, rci_t b_row,
                              wi_t b_startblock) {
  mzd_combine_even_in_place(A, a_row, a_startblock, B, b_row, b_startblock);
}
word vf_hash(mzd_t const *A) { return mzd_hash(A); }

rci_t *vf_mzp_values(mzp_t *P) { return P->values; }
rci_t vf_mzp_length(mzp_t const *P) { return P->length; }

void vf_djb_free(djb_t *z) { djb_free(z); }
int vf_djb_length(djb_t *z) { return z->length; }
int vf_djb_nsource_target(djb_t *z) {
  int n = 0;
  for (int i = 0; i < z->length; i++) n += (z->srctyp[i] == source_target);
  return n;
}

word vf_swap_bits(word v) { return m4ri_swap_bits(v); }
word vf_shrink_bits(word from, rci_t *Q, int length, int base) { return m4ri_shrink_bits(from, Q, length, base); }
word vf_spread_bits(word from, rci_t *Q, int length, int base) { return m4ri_spread_bits(from, Q, length, base); }
int vf_lesser_LSB(word a, word b) { return m4ri_lesser_LSB(a, b); }
word vf_parity64(word *buf) { return m4ri_parity64(buf); }
word vf_left_bitmask(int n) { return __M4RI_LEFT_BITMASK(n); }
word vf_right_bitmask(int n) { return __M4RI_RIGHT_BITMASK(n); }
word vf_middle_bitmask(int n, int offset) { return __M4RI_MIDDLE_BITMASK(n, offset); }
int vf_log2_floor(int v) { return log2_floor(v); }
int vf_codebook_ord(int k, int i) { return m4ri_codebook[k]->ord[i]; }
int vf_codebook_inc(int k, int i) { return m4ri_codebook[k]->inc[i]; }
int vf_maxkay(void) { return __M4RI_MAXKAY; }
void vf_combine_words(word *c, word const *t, wi_t wide) { _mzd_combine(c, t, wide); }
void vf_combine_n(int n, word *c, word const **t, wi_t wide) {
  switch (n) {
  case 1: _mzd_combine(c, t[0], wide); break;
  case 2: _mzd_combine_2(c, t, wide); break;
  case 3: _mzd_combine_3(c, t, wide); break;
  case 4: _mzd_combine_4(c, t, wide); break;
  case 5: _mzd_combine_5(c, t, wide); break;
  case 6: _mzd_combine_6(c, t, wide); break;
  case 7: _mzd_combine_7(c, t, wide); break;
  case 8: _mzd_combine_8(c, t, wide); break;
  }
}

int vf_cfg_mul_blocksize(void) { return __M4RI_MUL_BLOCKSIZE; }
int vf_cfg_strassen_cutoff(void) { return __M4RI_STRASSEN_MUL_CUTOFF; }
long vf_cfg_ple_cutoff(void) { return __M4RI_PLE_CUTOFF; }
int vf_cfg_have_sse2(void) { return __M4RI_HAVE_SSE2; }
int vf_cfg_have_openmp(void) { return __M4RI_HAVE_OPENMP; }
int vf_cfg_enable_mmc(void) { return __M4RI_ENABLE_MMC; }
int vf_cfg_enable_mzd_cache(void) { return __M4RI_ENABLE_MZD_CACHE; }
long vf_cfg_l1(void) { return __M4RI_CPU_L1_CACHE; }
long vf_cfg_l2(void) { return __M4RI_CPU_L2_CACHE; }
long vf_cfg_l3(void) { return __M4RI_CPU_L3_CACHE; }
long vf_cfg_mmc_threshold(void) { return __M4RI_MMC_THRESHOLD; }
int vf_cfg_mmc_nblocks(void) { return __M4RI_MMC_NBLOCKS; }
int vf_omp_max_threads(void) {
#if __M4RI_HAVE_OPENMP
  return omp_get_max_threads();
#else
  return 1;
#endif
}
void vf_omp_set_threads(int n) {
#if __M4RI_HAVE_OPENMP
  omp_set_num_threads(n);
#else
  (void)n;
#endif
}

mzd_t *vf_mul_mp(mzd_t *C, mzd_t const *A, mzd_t const *B, int cutoff, int add, int *unsupported) {
#if __M4RI_HAVE_OPENMP
  *unsupported = 0;
  return add ? mzd_addmul_mp(C, A, B, cutoff) : mzd_mul_mp(C, A, B, cutoff);
#else
  /* the sequential build has no multi-core front end: its counterpart is the plain Strassen-Winograd product */
  *unsupported = 2;
  return add ? mzd_addmul(C, A, B, cutoff) : mzd_mul(C, A, B, cutoff);
#endif
}

#ifndef VF_WRAPALLOC
void vf_wrap_enable(int on) { (void)on; }
void vf_wrap_set_fill(int fresh, int freed) { (void)fresh; (void)freed; }
void vf_wrap_fail_at(long idx) { (void)idx; }
long vf_wrap_requests(void) { return 0; }
long vf_wrap_allocs(void) { return 0; }
long vf_wrap_frees(void) { return 0; }
long vf_wrap_live(void) { return 0; }
long vf_wrap_live_bytes(void) { return 0; }
long vf_wrap_failed(void) { return 0; }
int vf_wrap_present(void) { return 0; }
int vf_wrap_live_sizes(long *out, int max) { (void)out; (void)max; return 0; }
#endif
