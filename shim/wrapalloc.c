/* wrapalloc.c: linked with -Wl,--wrap=malloc,--wrap=calloc,--wrap=realloc,--wrap=posix_memalign,--wrap=free
 * in the "wrap" configurations.  Intercepts exactly the allocation calls made from the objects of the
 * link (m4ri, shim, harness) - including the inlined _mm_malloc -> posix_memalign - and provides:
 *   counting, a live set (balance / leak attribution), pattern fill of fresh blocks and poisoning of
 *   freed ones (C10), failing the i-th request with size > 0 (C20).
 * Only calls made while tracking is enabled (vf_wrap_enable) are counted / filled / failed; the harness
 * enables tracking around library calls, so its own allocations do not disturb the numbers.
 */
#include <errno.h>
#include <execinfo.h>
#include <fcntl.h>
#include <unistd.h>
#include <stddef.h>
#include <stdint.h>
#include <stdio.h>
#include <stdlib.h>
#include <string.h>

void *__real_malloc(size_t);
void *__real_calloc(size_t, size_t);
void *__real_realloc(void *, size_t);
int __real_posix_memalign(void **, size_t, size_t);
void __real_free(void *);

#define TABSZ (1u << 18)
static struct { void *p; size_t n; } tab[TABSZ];
static long n_live, n_alloc, n_free, n_failed, n_untracked_free;
static size_t live_bytes;
static int enabled;
static int fill_byte = -1;   /* -1: no fill */
static int poison_byte = -1; /* -1: no poisoning of freed blocks */
static long fail_at = -1;    /* index (0-based, among enabled requests with size > 0) to fail */
static long req_index;

static unsigned hidx(void *p) { return (unsigned)(((uintptr_t)p >> 4) * 2654435761u) & (TABSZ - 1); }

static void tab_add(void *p, size_t n) {
  unsigned i = hidx(p);
  for (unsigned k = 0; k < TABSZ; k++, i = (i + 1) & (TABSZ - 1))
    if (tab[i].p == NULL || tab[i].p == (void *)1) {
      tab[i].p = p;
      tab[i].n = n;
      n_live++;
      live_bytes += n;
      return;
    }
}
static int tab_del(void *p, size_t *n) {
  unsigned i = hidx(p);
  for (unsigned k = 0; k < TABSZ; k++, i = (i + 1) & (TABSZ - 1)) {
    if (tab[i].p == NULL) return 0;
    if (tab[i].p == p) {
      *n = tab[i].n;
      tab[i].p = (void *)1; /* tombstone */
      n_live--;
      live_bytes -= *n;
      return 1;
    }
  }
  return 0;
}

/* development aid (bin/vallocsites.py): with VF_ALLOC_SITES=<file> every counted request appends its call chain
 * (offsets relative to the start of the executable) so that the allocation sites reached by the fault scenarios can be listed */
extern char __executable_start;
static int site_fd = -2;
static int in_site_log;
static void log_site(void) {
  if (site_fd == -2) {
    const char *p = getenv("VF_ALLOC_SITES");
    site_fd = p ? open(p, O_WRONLY | O_CREAT | O_APPEND, 0644) : -1;
  }
  if (site_fd < 0 || in_site_log) return;
  in_site_log = 1;
  void *bt[8];
  int n = backtrace(bt, 8);
  uintptr_t rec[8];
  for (int i = 0; i < 8; i++) rec[i] = i < n ? (uintptr_t)bt[i] - (uintptr_t)&__executable_start : 0;
  if (write(site_fd, rec, sizeof rec) < 0) site_fd = -1;
  in_site_log = 0;
}

static int should_fail(size_t size) {
  if (!enabled || size == 0 || in_site_log) return 0;
  log_site();
  long me = req_index++;
  n_alloc++;
  if (me == fail_at) {
    n_failed++;
    return 1;
  }
  return 0;
}

void *__wrap_malloc(size_t size) {
  if (should_fail(size)) return NULL;
  void *p = __real_malloc(size);
  if (p && enabled) {
    if (fill_byte >= 0) memset(p, fill_byte, size);
    tab_add(p, size);
  }
  return p;
}
void *__wrap_calloc(size_t c, size_t s) {
  if (should_fail(c * s)) return NULL;
  void *p = __real_calloc(c, s);
  if (p && enabled) tab_add(p, c * s);
  return p;
}
void *__wrap_realloc(void *old, size_t size) {
  if (should_fail(size)) return NULL;
  size_t oldn = 0;
  int tracked = old ? tab_del(old, &oldn) : 0;
  void *p = __real_realloc(old, size);
  if (p) {
    if (enabled || tracked) {
      if (fill_byte >= 0 && size > oldn && tracked) memset((char *)p + oldn, fill_byte, size - oldn);
      tab_add(p, size);
    }
  } else if (tracked) {
    tab_add(old, oldn);
  }
  return p;
}
int __wrap_posix_memalign(void **out, size_t al, size_t size) {
  if (should_fail(size)) return ENOMEM;
  int r = __real_posix_memalign(out, al, size);
  if (r == 0 && *out && enabled) {
    if (fill_byte >= 0) memset(*out, fill_byte, size);
    tab_add(*out, size);
  }
  return r;
}
void __wrap_free(void *p) {
  if (!p) return;
  size_t n = 0;
  if (tab_del(p, &n)) {
    n_free++;
    if (poison_byte >= 0) memset(p, poison_byte, n);
  } else
    n_untracked_free++;
  __real_free(p);
}

/* ---- control interface (called from the harness) ---- */
void vf_wrap_enable(int on) { enabled = on; }
void vf_wrap_set_fill(int fresh, int freed) {
  fill_byte = fresh;
  poison_byte = freed;
}
void vf_wrap_fail_at(long idx) {
  fail_at = idx;
  req_index = 0;
}
long vf_wrap_requests(void) { return req_index; }
long vf_wrap_allocs(void) { return n_alloc; }
long vf_wrap_frees(void) { return n_free; }
long vf_wrap_live(void) { return n_live; }
long vf_wrap_live_bytes(void) { return (long)live_bytes; }
long vf_wrap_failed(void) { return n_failed; }
int vf_wrap_present(void) { return 1; }
/* sizes of up to max live blocks (for diagnostics) */
int vf_wrap_live_sizes(long *out, int max) {
  int k = 0;
  for (unsigned i = 0; i < TABSZ && k < max; i++)
    if (tab[i].p && tab[i].p != (void *)1) out[k++] = (long)tab[i].n;
  return k;
}
