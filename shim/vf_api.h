/* Declarations through which the C++ harness reaches m4ri.
 *
 * The harness never includes an m4ri header (so it is compiled once, independently of /repo and of the
 * build configuration).  Non-inline entry points are re-declared here with their real names; shim.c
 * includes <m4ri/m4ri.h> *and* this file, so any drift between these declarations and the tree is a
 * compile error of the check, never a silent mismatch.  Inline functions, macros and struct fields are
 * reached through the vf_* wrappers implemented in shim.c.
 */
#ifndef VF_API_H
#define VF_API_H
#include <stddef.h>
#include <stdint.h>
#include <stdio.h>

#ifdef __cplusplus
extern "C" {
#endif

#ifndef M4RI_M4RI_H
typedef int rci_t;
typedef int64_t wi_t;
typedef uint64_t word;
typedef int BIT;
typedef struct mzd_t mzd_t;
typedef struct mzp_t mzp_t;
typedef struct djb_t djb_t;
#define VF_DJB_T djb_t
#else
#define VF_DJB_T djb_t
#endif

/* ---- real entry points (non-inline) ---- */
mzd_t *mzd_init(rci_t const r, rci_t const c);
void mzd_free(mzd_t *A);
mzd_t *mzd_init_window(mzd_t *M, rci_t const lowr, rci_t const lowc, rci_t const highr, rci_t const highc);
void mzd_copy_row(mzd_t *B, rci_t i, mzd_t const *A, rci_t j);
void mzd_row_add(mzd_t *M, rci_t const sourcerow, rci_t const destrow);
mzd_t *mzd_transpose(mzd_t *DST, mzd_t const *A);
mzd_t *mzd_mul_naive(mzd_t *C, mzd_t const *A, mzd_t const *B);
mzd_t *mzd_addmul_naive(mzd_t *C, mzd_t const *A, mzd_t const *B);
mzd_t *_mzd_mul_naive(mzd_t *C, mzd_t const *A, mzd_t const *B, int const clear);
mzd_t *_mzd_mul_va(mzd_t *C, mzd_t const *v, mzd_t const *A, int const clear);
void mzd_randomize(mzd_t *M);
void mzd_set_ui(mzd_t *M, unsigned int const value);
rci_t mzd_gauss_delayed(mzd_t *M, rci_t const startcol, int const full);
rci_t mzd_echelonize_naive(mzd_t *M, int const full);
int mzd_equal(mzd_t const *A, mzd_t const *B);
int mzd_cmp(mzd_t const *A, mzd_t const *B);
mzd_t *mzd_copy(mzd_t *DST, mzd_t const *A);
mzd_t *mzd_concat(mzd_t *C, mzd_t const *A, mzd_t const *B);
mzd_t *mzd_stack(mzd_t *C, mzd_t const *A, mzd_t const *B);
mzd_t *mzd_submatrix(mzd_t *S, mzd_t const *M, rci_t const lowr, rci_t const lowc, rci_t const highr,
                     rci_t const highc);
mzd_t *mzd_invert_naive(mzd_t *INV, mzd_t const *A, mzd_t const *I);
mzd_t *mzd_add(mzd_t *C, mzd_t const *A, mzd_t const *B);
mzd_t *_mzd_add(mzd_t *C, mzd_t const *A, mzd_t const *B);
int mzd_is_zero(mzd_t const *A);
void mzd_row_clear_offset(mzd_t *M, rci_t const row, rci_t const coloffset);
int mzd_find_pivot(mzd_t const *M, rci_t start_row, rci_t start_col, rci_t *r, rci_t *c);
double mzd_density(mzd_t const *A, wi_t res);
double _mzd_density(mzd_t const *A, wi_t res, rci_t r, rci_t c);
rci_t mzd_first_zero_row(mzd_t const *A);
mzd_t *mzd_extract_u(mzd_t *U, mzd_t const *A);
mzd_t *mzd_extract_l(mzd_t *L, mzd_t const *A);

void mzd_make_table(mzd_t const *M, rci_t r, rci_t c, int k, mzd_t *T, rci_t *L);
rci_t _mzd_echelonize_m4ri(mzd_t *A, const int full, int k, int heuristic, const double threshold);
void mzd_top_echelonize_m4ri(mzd_t *M, int k);
rci_t _mzd_top_echelonize_m4ri(mzd_t *A, int k, rci_t r, rci_t c, rci_t max_r);
mzd_t *mzd_inv_m4ri(mzd_t *dst, const mzd_t *src, int k);
mzd_t *mzd_mul_m4rm(mzd_t *C, mzd_t const *A, mzd_t const *B, int k);
mzd_t *mzd_addmul_m4rm(mzd_t *C, mzd_t const *A, mzd_t const *B, int k);
mzd_t *_mzd_mul_m4rm(mzd_t *C, mzd_t const *A, mzd_t const *B, int k, int clear);

mzd_t *mzd_mul(mzd_t *C, mzd_t const *A, mzd_t const *B, int cutoff);
mzd_t *mzd_addmul(mzd_t *C, mzd_t const *A, mzd_t const *B, int cutoff);
mzd_t *_mzd_mul_even(mzd_t *C, mzd_t const *A, mzd_t const *B, int cutoff);
mzd_t *_mzd_addmul_even(mzd_t *C, mzd_t const *A, mzd_t const *B, int cutoff);
mzd_t *_mzd_addmul(mzd_t *C, mzd_t const *A, mzd_t const *B, int cutoff);

/* mzd_mul_mp / mzd_addmul_mp exist only in OpenMP builds: reached through vf_mul_mp */

rci_t mzd_pluq(mzd_t *A, mzp_t *P, mzp_t *Q, const int cutoff);
rci_t mzd_ple(mzd_t *A, mzp_t *P, mzp_t *Q, const int cutoff);
rci_t _mzd_pluq(mzd_t *A, mzp_t *P, mzp_t *Q, const int cutoff);
rci_t _mzd_ple(mzd_t *A, mzp_t *P, mzp_t *Qt, const int cutoff);
rci_t _mzd_pluq_naive(mzd_t *A, mzp_t *P, mzp_t *Q);
rci_t _mzd_ple_naive(mzd_t *A, mzp_t *P, mzp_t *Qt);
rci_t _mzd_ple_russian(mzd_t *A, mzp_t *P, mzp_t *Q, int k);
rci_t _mzd_pluq_russian(mzd_t *A, mzp_t *P, mzp_t *Q, int k);

void mzd_trsm_upper_right(mzd_t const *U, mzd_t *B, const int cutoff);
void _mzd_trsm_upper_right(mzd_t const *U, mzd_t *B, const int cutoff);
void mzd_trsm_lower_right(mzd_t const *L, mzd_t *B, const int cutoff);
void _mzd_trsm_lower_right(mzd_t const *L, mzd_t *B, const int cutoff);
void mzd_trsm_lower_left(mzd_t const *L, mzd_t *B, const int cutoff);
void _mzd_trsm_lower_left(mzd_t const *L, mzd_t *B, const int cutoff);
void mzd_trsm_upper_left(mzd_t const *U, mzd_t *B, const int cutoff);
void _mzd_trsm_upper_left(mzd_t const *U, mzd_t *B, const int cutoff);
mzd_t *mzd_trtri_upper(mzd_t *A);
void _mzd_trsm_lower_left_russian(mzd_t const *L, mzd_t *B, int k);
void _mzd_trsm_upper_left_russian(mzd_t const *U, mzd_t *B, int k);
mzd_t *mzd_trtri_upper_russian(mzd_t *A, int k);

int mzd_solve_left(mzd_t *A, mzd_t *B, int const cutoff, int const inconsistency_check);
int mzd_pluq_solve_left(mzd_t const *A, rci_t rank, mzp_t const *P, mzp_t const *Q, mzd_t *B, int const cutoff,
                        int const inconsistency_check);
int _mzd_pluq_solve_left(mzd_t const *A, rci_t rank, mzp_t const *P, mzp_t const *Q, mzd_t *B, int const cutoff,
                         int const inconsistency_check);
int _mzd_solve_left(mzd_t *A, mzd_t *B, int const cutoff, int const inconsistency_check);
mzd_t *mzd_kernel_left_pluq(mzd_t *A, int const cutoff);

rci_t mzd_echelonize(mzd_t *A, int full);
rci_t mzd_echelonize_pluq(mzd_t *A, int full);
rci_t mzd_echelonize_m4ri(mzd_t *A, int full, int k);

mzp_t *mzp_init(rci_t length);
void mzp_free(mzp_t *P);
mzp_t *mzp_init_window(mzp_t *P, rci_t begin, rci_t end);
void mzp_free_window(mzp_t *condemned);
mzp_t *mzp_copy(mzp_t *P, const mzp_t *Q);
void mzp_set_ui(mzp_t *P, unsigned int value);
void mzd_apply_p_left(mzd_t *A, mzp_t const *P);
void mzd_apply_p_left_trans(mzd_t *A, mzp_t const *P);
void mzd_apply_p_right(mzd_t *A, mzp_t const *P);
void mzd_apply_p_right_trans(mzd_t *A, mzp_t const *P);
void mzd_apply_p_right_even_capped(mzd_t *A, mzp_t const *P, rci_t start_row, rci_t start_col);
void mzd_apply_p_right_trans_even_capped(mzd_t *A, mzp_t const *P, rci_t start_row, rci_t start_col);
void mzd_apply_p_right_trans_tri(mzd_t *A, mzp_t const *Q);
void _mzd_compress_l(mzd_t *A, rci_t r1, rci_t n1, rci_t r2);

mzd_t *mzd_from_png(const char *fn, int verbose);
int mzd_to_png(const mzd_t *A, const char *fn, int compression_level, const char *comment, int verbose);
mzd_t *mzd_from_jcf(const char *fn, int verbose);
mzd_t *mzd_from_str(rci_t m, rci_t n, const char *str);

VF_DJB_T *djb_compile(mzd_t *A);
void djb_apply_mzd(VF_DJB_T *z, mzd_t *W, const mzd_t *V);

int m4ri_gray_code(int i, int l);
void m4ri_build_code(int *ord, int *inc, int l);
int m4ri_opt_k(int a, int b, int c);
void m4ri_die(const char *errormessage, ...);
void m4ri_init(void);
void m4ri_fini(void);
void m4ri_mmc_cleanup(void);
void *m4ri_mmc_malloc(size_t size);
void m4ri_mmc_free(void *condemned, size_t size);

/* ---- wrappers implemented in shim.c (inline functions, macros, struct fields) ---- */
rci_t vf_nrows(mzd_t const *M);
rci_t vf_ncols(mzd_t const *M);
wi_t vf_width(mzd_t const *M);
wi_t vf_rowstride(mzd_t const *M);
word vf_high_bitmask(mzd_t const *M);
unsigned vf_flags(mzd_t const *M);
word *vf_data(mzd_t const *M);
word *vf_row_ptr(mzd_t const *M, rci_t r);
int vf_is_windowed(mzd_t const *M);
int vf_is_dangerous_window(mzd_t const *M);
size_t vf_sizeof_mzd(void);
/* raw block transfer, independent of the library's accessors.  words: nrows x wstride, row major;
   only the bits inside the matrix are written (the rest of the last word is preserved). */
void vf_write_block(mzd_t *M, const word *words, int wstride);
void vf_read_block(mzd_t const *M, word *words, int wstride);
/* raw read of all rowstride words of every row (used for parent snapshots) */
void vf_read_raw(mzd_t const *M, word *words);
void vf_write_raw(mzd_t *M, const word *words);
/* OR of all padding bits (last word beyond ncols) over all rows */
word vf_padding_or(mzd_t const *M);

mzd_t const *vf_init_window_const(mzd_t const *M, rci_t lowr, rci_t lowc, rci_t highr, rci_t highc);
void vf_free_window(mzd_t *M);
void vf_row_swap(mzd_t *M, rci_t a, rci_t b);
void vf__row_swap(mzd_t *M, rci_t a, rci_t b, wi_t startblock);
void vf_col_swap(mzd_t *M, rci_t a, rci_t b);
void vf_col_swap_in_rows(mzd_t *M, rci_t a, rci_t b, rci_t start_row, rci_t stop_row);
BIT vf_read_bit(mzd_t const *M, rci_t r, rci_t c);
void vf_write_bit(mzd_t *M, rci_t r, rci_t c, BIT v);
void vf_xor_bits(mzd_t *M, rci_t x, rci_t y, int n, word values);
void vf_and_bits(mzd_t *M, rci_t x, rci_t y, int n, word values);
void vf_clear_bits(mzd_t *M, rci_t x, rci_t y, int n);
word vf_read_bits(mzd_t const *M, rci_t x, rci_t y, int n);
int vf_read_bits_int(mzd_t const *M, rci_t x, rci_t y, int n);
void vf_row_add_offset(mzd_t *M, rci_t dstrow, rci_t srcrow, rci_t coloffset);
void vf_combine(mzd_t *C, rci_t c_row, wi_t c_startblock, mzd_t const *A, rci_t a_row, wi_t a_startblock,
                mzd_t const *B, rci_t b_row, wi_t b_startblock);
void vf_combine_even(mzd_t *C, rci_t c_row, wi_t c_startblock, mzd_t const *A, rci_t a_row, wi_t a_startblock,
                     mzd_t const *B, rci_t b_row, wi_t b_startblock);
void vf_combine_even_in_place(mzd_t *A, rci_t a_row, wi_t a_startblock, mzd_t const *B, rci_t b_row,
                              wi_t b_startblock);
word vf_hash(mzd_t const *A);

rci_t *vf_mzp_values(mzp_t *P);
rci_t vf_mzp_length(mzp_t const *P);

void vf_djb_free(VF_DJB_T *z);
int vf_djb_length(VF_DJB_T *z);
int vf_djb_nsource_target(VF_DJB_T *z);

/* finite-domain kernels */
word vf_swap_bits(word v);
word vf_shrink_bits(word from, rci_t *Q, int length, int base);
word vf_spread_bits(word from, rci_t *Q, int length, int base);
int vf_lesser_LSB(word a, word b);
word vf_parity64(word *buf);
word vf_left_bitmask(int n);
word vf_right_bitmask(int n);
word vf_middle_bitmask(int n, int offset);
int vf_log2_floor(int v);
int vf_codebook_ord(int k, int i);
int vf_codebook_inc(int k, int i);
int vf_maxkay(void);
void vf_combine_words(word *c, word const *t, wi_t wide);             /* _mzd_combine      */
void vf_combine_n(int n, word *c, word const **t, wi_t wide);         /* _mzd_combine_<n>  */

/* configuration-derived thresholds */
int vf_cfg_mul_blocksize(void);
int vf_cfg_strassen_cutoff(void);
long vf_cfg_ple_cutoff(void);
int vf_cfg_have_sse2(void);
int vf_cfg_have_openmp(void);
int vf_cfg_enable_mmc(void);
int vf_cfg_enable_mzd_cache(void);
long vf_cfg_l1(void);
long vf_cfg_l2(void);
long vf_cfg_l3(void);
long vf_cfg_mmc_threshold(void);
int vf_cfg_mmc_nblocks(void);
/* add != 0: mzd_addmul_mp, else mzd_mul_mp; returns NULL and sets *unsupported in non-OpenMP builds */
mzd_t *vf_mul_mp(mzd_t *C, mzd_t const *A, mzd_t const *B, int cutoff, int add, int *unsupported);
int vf_omp_max_threads(void);
void vf_omp_set_threads(int n);

/* allocation wrapper (wrapalloc.c in the "wrap" configurations, inert stubs otherwise) */
void vf_wrap_enable(int on);
void vf_wrap_set_fill(int fresh, int freed);
void vf_wrap_fail_at(long idx);
long vf_wrap_requests(void);
long vf_wrap_allocs(void);
long vf_wrap_frees(void);
long vf_wrap_live(void);
long vf_wrap_live_bytes(void);
long vf_wrap_failed(void);
int vf_wrap_present(void);
int vf_wrap_live_sizes(long *out, int max);

#ifdef __cplusplus
}
#endif
#endif
